#!/usr/bin/env python3
"""Files an independently written, confirmed seeded change under /verif/seeded/<id>/.
Usage: tools/keep_seed.py <seed id> <src dir> <property> <confirm json> <check log line file> <needs text>"""
import json, os, shutil, sys
sid, src, prop, confirm, checkline, needs = sys.argv[1:7]
dst = os.path.join("/verif/seeded", sid)
os.makedirs(dst, exist_ok=True)
for f in ("patch.diff", "demo.rs", "NOTES.md"):
    if os.path.exists(os.path.join(src, f)):
        shutil.copy(os.path.join(src, f), os.path.join(dst, f))
t = open(confirm).read()
conf = json.loads(t[t.index("{"):])
meta = {
    "id": sid,
    "property": prop,
    "origin": "written by a fresh sub-agent that was given only the text of the property and a scratch worktree of /repo (nothing from /verif)",
    "needs_to_manifest": needs,
    "confirmed_by": {
        "tool": "tools/confirm_seed.py (scratch worktree /tmp/confirm-seed of /repo HEAD %s)" % conf.get("repo_head"),
        "demo_passes_without_patch": conf["demo_without_patch"]["exit"] == 0,
        "demo_cmd": conf["demo_without_patch"]["cmd"],
        "demo_fails_with_patch": conf["demo_with_patch"]["exit"] != 0,
        "demo_with_patch_tail": conf["demo_with_patch"]["tail"],
        "existing_suite_with_patch": conf["suite_with_patch"],
        "confirmed": conf["confirmed"],
    },
    "checks_run": "./run.py selfcheck patch seeded/%s/patch.diff %s   (quick tier, scratch worktree of /repo with the patch applied)" % (sid, prop),
    "check_result": open(checkline).read().strip(),
}
json.dump(meta, open(os.path.join(dst, "meta.json"), "w"), indent=1)
print("kept", dst, "confirmed" if conf["confirmed"] else "NOT CONFIRMED")
