#!/usr/bin/env python3
"""Evaluates one round of independently written seeded changes:
   tools/eval_round.py <out dir> <id offset> [prop ...]
For every <out dir>/<prop>/<n>/{patch.diff,demo.rs,NOTES.md}: confirm it (tools/confirm_seed.py), run the
property's quick check against it (./run.py selfcheck patch), and print one line. Nothing is filed; use
tools/keep_seed.py for that once a result has been looked at."""
import json, os, subprocess, sys
out, off = sys.argv[1], int(sys.argv[2])
props = sys.argv[3:] or sorted(os.listdir(out))
os.makedirs("/verif/tmp", exist_ok=True)
for prop in props:
    for n in sorted(os.listdir(os.path.join(out, prop))):
        d = os.path.join(out, prop, n)
        if not os.path.exists(os.path.join(d, "patch.diff")):
            continue
        sid = "%s-%d" % (prop, int(n) + off)
        cj = "/verif/tmp/confirm-%s.json" % sid
        with open(cj, "w") as f:
            subprocess.run(["python3", "/verif/tools/confirm_seed.py", d], stdout=f, stderr=subprocess.STDOUT)
        t = open(cj).read()
        try:
            conf = json.loads(t[t.index("{"):])["confirmed"]
        except Exception:
            conf = None
        p = subprocess.run(["/verif/run.py", "selfcheck", "patch", os.path.join(d, "patch.diff"), prop, "--keep-build"], cwd="/verif",
                           stdout=subprocess.PIPE, stderr=subprocess.STDOUT, text=True)
        line = [l for l in p.stdout.splitlines() if l.startswith("patch ")]
        line = (line[0] if line else p.stdout[-300:]).replace("patch ", "patch %s " % sid, 1)
        open("/verif/tmp/line-%s.txt" % sid, "w").write(line)
        print(sid, "confirmed=%s" % conf, line[:330], flush=True)
