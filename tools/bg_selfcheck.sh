#!/bin/bash
# background job: setup + determinism self-check from a snapshot (vp run)
./run.py setup > setup.log 2>&1 || { echo setup failed; tail setup.log; exit 2; }
./run.py selfcheck determinism 2>&1 | tail -15
