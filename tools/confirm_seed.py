#!/usr/bin/env python3
"""Confirms an independently written seeded change (patch.diff + demo.rs) in a scratch worktree of /repo:
  1. the demo passes on the unchanged checkout,
  2. the patch applies, the crate builds and the existing test suite (unedited) passes with it,
  3. the demo fails with the patch applied.
Usage: tools/confirm_seed.py <dir with patch.diff, demo.rs> [features]   -> prints a JSON record.
The scratch worktree (/tmp/confirm-seed) and its build output are reused between calls and removed with --cleanup.
"""
import json, os, re, shutil, subprocess, sys, time

WT = "/tmp/confirm-seed"


def sh(cmd, cwd=None, timeout=3000):
    p = subprocess.run(cmd, cwd=cwd, shell=isinstance(cmd, str), stdout=subprocess.PIPE, stderr=subprocess.STDOUT, text=True, timeout=timeout,
                       env=dict(os.environ, CARGO_NET_OFFLINE="true"))
    return p.returncode, p.stdout


def main():
    if sys.argv[1] == "--cleanup":
        sh(["git", "-C", "/repo", "worktree", "remove", "--force", WT])
        shutil.rmtree(WT, ignore_errors=True)
        return 0
    d = os.path.abspath(sys.argv[1])
    feats = sys.argv[2] if len(sys.argv) > 2 else "decode"
    if not os.path.isdir(WT):
        rc, out = sh(["git", "-C", "/repo", "worktree", "add", "-q", "--detach", WT, "HEAD"])
        assert rc == 0, out
    sh(["git", "-C", WT, "checkout", "--", "."])
    sh(["git", "-C", WT, "clean", "-fdq", "tests"])
    os.makedirs(os.path.join(WT, "tests"), exist_ok=True)
    shutil.copy(os.path.join(d, "demo.rs"), os.path.join(WT, "tests", "seed_demo.rs"))
    rec = {"dir": d, "repo_head": sh(["git", "-C", "/repo", "rev-parse", "--short", "HEAD"])[1].strip()}
    demo_cmd = "cargo test --offline --features %s --test seed_demo -- --test-threads 4" % feats
    t0 = time.time()
    rc, out = sh(demo_cmd, cwd=WT)
    rec["demo_without_patch"] = {"cmd": demo_cmd, "exit": rc, "tail": out.strip().splitlines()[-3:]}
    rc, out = sh(["git", "-C", WT, "apply", "--whitespace=nowarn", os.path.join(d, "patch.diff")])
    rec["patch_applies"] = rc == 0
    if rc != 0:
        rec["apply_error"] = out[-500:]
    rc, out = sh(demo_cmd, cwd=WT)
    rec["demo_with_patch"] = {"exit": rc, "tail": [l for l in out.strip().splitlines() if l.startswith("test result") or "panicked" in l or "FAILED" in l][-4:]}
    os.remove(os.path.join(WT, "tests", "seed_demo.rs"))
    suite_cmd = "cargo test --workspace --offline --no-fail-fast"
    rc, out = sh(suite_cmd, cwd=WT)
    res = re.findall(r"test result: (\w+)\. (\d+) passed; (\d+) failed", out)
    rec["suite_with_patch"] = {"cmd": suite_cmd, "exit": rc, "results": res}
    sh(["git", "-C", WT, "checkout", "--", "."])
    rec["confirmed"] = bool(rec["patch_applies"] and rec["demo_without_patch"]["exit"] == 0 and rec["demo_with_patch"]["exit"] != 0 and rc == 0)
    rec["wall_s"] = round(time.time() - t0)
    print(json.dumps(rec, indent=1))
    return 0 if rec["confirmed"] else 1


if __name__ == "__main__":
    sys.exit(main())
