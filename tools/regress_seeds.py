#!/usr/bin/env python3
"""Runs every kept seeded change (seeded/<id>/patch.diff) against its property's check and prints a table.
   tools/regress_seeds.py [--with-thorough] [id ...]    (seeds marked THOROUGH in meta.json need the thorough tier)"""
import json, os, subprocess, sys, time
HERE = os.path.dirname(os.path.dirname(os.path.abspath(__file__)))
args = sys.argv[1:]
with_thorough = "--with-thorough" in args
ids = [a for a in args if not a.startswith("--")] or sorted(os.listdir(os.path.join(HERE, "seeded")))
rows = []
for sid in ids:
    d = os.path.join(HERE, "seeded", sid)
    if not os.path.exists(os.path.join(d, "patch.diff")):
        continue
    meta = json.load(open(os.path.join(d, "meta.json")))
    prop = meta["property"]
    thorough = "THOROUGH" in meta.get("check_result", "")
    if "NOT COUNTED" in meta.get("check_result", ""):
        rows.append((sid, prop, "not counted (not a violation of the property as worded; see meta.json)"))
        print(rows[-1], flush=True)
        continue
    if thorough and not with_thorough:
        rows.append((sid, prop, "skipped (needs the thorough tier; run with --with-thorough)"))
        print(rows[-1], flush=True)
        continue
    t0 = time.time()
    cmd = [os.path.join(HERE, "run.py"), "selfcheck", "patch", os.path.join(d, "patch.diff"), prop, "--keep-build"] + (["--tier", "thorough"] if thorough else [])
    p = subprocess.run(cmd, cwd=HERE, stdout=subprocess.PIPE, stderr=subprocess.STDOUT, text=True)
    line = [l for l in p.stdout.splitlines() if l.startswith("patch ")]
    res = "CAUGHT" if line and "exit 1" in line[0] and "VIOLATION" in line[0] else "MISSED/ERROR: " + (line[0] if line else p.stdout[-200:])
    cls = ""
    if line and "class=" in line[0]:
        cls = line[0].split("class=")[1].split(" ")[0]
    rows.append((sid, prop, "%s %s (%s, %.0f s)" % (res, cls, "thorough" if thorough else "quick", time.time() - t0)))
    print(rows[-1], flush=True)
caught = sum(1 for r in rows if r[2].startswith("CAUGHT"))
print("SUMMARY: %d of %d run seeds caught, %d skipped" % (caught, sum(1 for r in rows if not r[2].startswith("skipped") and not r[2].startswith("not counted")), sum(1 for r in rows if r[2].startswith("skipped"))))
