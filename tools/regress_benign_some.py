#!/usr/bin/env python3
"""tools/regress_benign_some.py <benign dir name>... : every registered quick check against the named behaviour-preserving patches; expects silence."""
import os, subprocess, sys
HERE = os.path.dirname(os.path.dirname(os.path.abspath(__file__)))
PROPS = ["C03", "C05", "C06", "C10", "C11", "C12", "C14", "C16", "C17"]
bad = n = 0
for d in sys.argv[1:]:
    f = os.path.join(HERE, "benign", d, "patch.diff")
    p = subprocess.run([os.path.join(HERE, "run.py"), "selfcheck", "patch", f] + PROPS + ["--keep-build"], cwd=HERE, stdout=subprocess.PIPE, stderr=subprocess.STDOUT, text=True)
    for line in p.stdout.splitlines():
        if line.startswith("patch "):
            n += 1
            ok = "exit 0" in line
            bad += 0 if ok else 1
            print("benign-%s %s" % (d, line[6:400]), flush=True)
print("SUMMARY: %d runs, %d not silent" % (n, bad))
sys.exit(0 if bad == 0 else 1)
