#!/bin/bash
./run.py setup > setup.log 2>&1 || { echo setup failed; tail setup.log; exit 2; }
for p in C03 C05 C06 C10 C11 C12 C14 C16 C17; do
  s=$(date +%s); ./run.py check $p --tier thorough > thorough_$p.log 2>&1; rc=$?
  echo "$p thorough exit=$rc $(( $(date +%s)-s ))s $(grep -c VIOLATION thorough_$p.log) violations"; tail -2 thorough_$p.log
done
