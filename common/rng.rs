//! Small deterministic PRNG (splitmix64 seeding + xoshiro256**). No external state.

/// Progress ticks of the process (scheduling decisions, source reads): what a wall-clock watchdog looks at.
pub static TICKS: std::sync::atomic::AtomicU64 = std::sync::atomic::AtomicU64::new(0);

pub fn tick() {
    TICKS.fetch_add(1, std::sync::atomic::Ordering::Relaxed);
}

#[derive(Clone, Debug)]
pub struct Rng {
    s: [u64; 4],
}

pub fn splitmix64(x: &mut u64) -> u64 {
    *x = x.wrapping_add(0x9E37_79B9_7F4A_7C15);
    let mut z = *x;
    z = (z ^ (z >> 30)).wrapping_mul(0xBF58_476D_1CE4_E5B9);
    z = (z ^ (z >> 27)).wrapping_mul(0x94D0_49BB_1331_11EB);
    z ^ (z >> 31)
}

pub fn mix(a: u64, b: u64) -> u64 {
    let mut x = a ^ b.rotate_left(32) ^ 0xD6E8_FEB8_6659_FD93;
    splitmix64(&mut x)
}

pub fn fnv(s: &str) -> u64 {
    let mut h = 0xcbf2_9ce4_8422_2325u64;
    for b in s.bytes() {
        h ^= u64::from(b);
        h = h.wrapping_mul(0x0000_0100_0000_01B3);
    }
    h
}

impl Rng {
    pub fn new(seed: u64) -> Self {
        let mut x = seed;
        let s = [
            splitmix64(&mut x),
            splitmix64(&mut x),
            splitmix64(&mut x),
            splitmix64(&mut x),
        ];
        Self { s }
    }

    pub fn next_u64(&mut self) -> u64 {
        let result = self.s[1].wrapping_mul(5).rotate_left(7).wrapping_mul(9);
        let t = self.s[1] << 17;
        self.s[2] ^= self.s[0];
        self.s[3] ^= self.s[1];
        self.s[1] ^= self.s[2];
        self.s[0] ^= self.s[3];
        self.s[2] ^= t;
        self.s[3] = self.s[3].rotate_left(45);
        result
    }

    /// Uniform in `0..n` (n > 0).
    pub fn below(&mut self, n: usize) -> usize {
        debug_assert!(n > 0);
        ((u128::from(self.next_u64()) * (n as u128)) >> 64) as usize
    }

    /// Uniform in `lo..=hi`.
    pub fn range(&mut self, lo: i64, hi: i64) -> i64 {
        lo + self.below((hi - lo + 1) as usize) as i64
    }

    pub fn chance(&mut self, p: f64) -> bool {
        (self.next_u64() >> 11) as f64 / ((1u64 << 53) as f64) < p
    }

    pub fn pick<'a, T>(&mut self, xs: &'a [T]) -> &'a T {
        &xs[self.below(xs.len())]
    }

    pub fn f32_unit(&mut self) -> f32 {
        (self.next_u64() >> 40) as f32 / (1u64 << 24) as f32
    }
}
