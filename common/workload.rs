//! Workload descriptions shared by the simulators: format, signal, encoder
//! configuration, source delivery script and fault plan. Everything is
//! explicit and serialisable so that a replay file is self-contained and the
//! driver can shrink it field by field.

use super::rng::{mix, Rng};
use serde::{Deserialize, Serialize};

use flacenc::config;
use flacenc::error::{Verified, Verify};

#[derive(Serialize, Deserialize, Clone, Debug, PartialEq)]
pub struct CfgSpec {
    pub use_constant: bool,
    pub use_fixed: bool,
    pub use_lpc: bool,
    pub use_leftside: bool,
    pub use_rightside: bool,
    pub use_midside: bool,
    pub fixed_max_order: usize,
    /// `None` = `OrderSel::BitCount`, `Some(p)` = `ApproxEnt { partitions: p }`.
    pub approx_ent_partitions: Option<usize>,
    pub rice_max: usize,
    pub lpc_order: usize,
    pub precision: usize,
    /// `None` = rectangular window, `Some(bits)` = Tukey with alpha = f32::from_bits(bits).
    pub tukey_alpha_bits: Option<u32>,
    /// (builds with the library's `experimental` feature only) direct-MSE LPC estimation
    #[serde(default, skip_serializing_if = "std::ops::Not::not")]
    pub direct_mse: bool,
    /// (experimental builds only) IRLS iterations of the MAE estimator
    #[serde(default, skip_serializing_if = "is_zero")]
    pub mae_steps: usize,
}

fn is_zero(x: &usize) -> bool {
    *x == 0
}

fn is_zero_i64(x: &i64) -> bool {
    *x == 0
}

impl CfgSpec {
    pub fn from_encoder(e: &config::Encoder) -> Self {
        let sf = &e.subframe_coding;
        Self {
            use_constant: sf.use_constant,
            use_fixed: sf.use_fixed,
            use_lpc: sf.use_lpc,
            use_leftside: e.stereo_coding.use_leftside,
            use_rightside: e.stereo_coding.use_rightside,
            use_midside: e.stereo_coding.use_midside,
            fixed_max_order: sf.fixed.max_order,
            approx_ent_partitions: match sf.fixed.order_sel {
                config::OrderSel::ApproxEnt { partitions } => Some(partitions),
                _ => None,
            },
            rice_max: sf.prc.max_parameter,
            lpc_order: sf.qlpc.lpc_order,
            precision: sf.qlpc.quant_precision,
            tukey_alpha_bits: match sf.qlpc.window {
                config::Window::Tukey { alpha } => Some(alpha.to_bits()),
                _ => None,
            },
            direct_mse: false,
            mae_steps: 0,
        }
    }

    pub fn default_spec() -> Self {
        Self::from_encoder(&config::Encoder::default())
    }

    pub fn to_encoder(&self, multithread: bool, workers: Option<usize>, block: usize) -> config::Encoder {
        let mut e = config::Encoder::default();
        e.block_size = block;
        e.multithread = multithread;
        e.workers = workers.and_then(std::num::NonZeroUsize::new);
        e.stereo_coding.use_leftside = self.use_leftside;
        e.stereo_coding.use_rightside = self.use_rightside;
        e.stereo_coding.use_midside = self.use_midside;
        let sf = &mut e.subframe_coding;
        sf.use_constant = self.use_constant;
        sf.use_fixed = self.use_fixed;
        sf.use_lpc = self.use_lpc;
        sf.fixed.max_order = self.fixed_max_order;
        sf.fixed.order_sel = match self.approx_ent_partitions {
            Some(p) => config::OrderSel::ApproxEnt { partitions: p },
            None => config::OrderSel::BitCount,
        };
        sf.prc.max_parameter = self.rice_max;
        sf.qlpc.lpc_order = self.lpc_order;
        sf.qlpc.quant_precision = self.precision;
        sf.qlpc.use_direct_mse = cfg!(feature = "experimental") && self.direct_mse;
        sf.qlpc.mae_optimization_steps = if cfg!(feature = "experimental") { self.mae_steps } else { 0 };
        sf.qlpc.window = match self.tukey_alpha_bits {
            Some(b) => config::Window::Tukey {
                alpha: f32::from_bits(b),
            },
            None => config::Window::Rectangle,
        };
        e
    }

    pub fn build(&self, multithread: bool, workers: Option<usize>, block: usize) -> Verified<config::Encoder> {
        self.to_encoder(multithread, workers, block)
            .into_verified()
            .unwrap_or_else(|e| panic!("HARNESS: generated configuration rejected: {:?}", e.1))
    }

    pub fn random(r: &mut Rng) -> Self {
        // a third of the time stay close to the default configuration
        let mut c = Self::default_spec();
        if r.chance(0.25) {
            return c;
        }
        c.use_constant = r.chance(0.8);
        c.use_fixed = r.chance(0.8);
        c.use_lpc = r.chance(0.7);
        c.use_leftside = r.chance(0.6);
        c.use_rightside = r.chance(0.6);
        c.use_midside = r.chance(0.6);
        c.fixed_max_order = r.below(5);
        c.approx_ent_partitions = if r.chance(0.5) {
            None
        } else {
            Some(*r.pick(&[1usize, 2, 3, 8, 32, 63, 64]))
        };
        c.rice_max = *r.pick(&[0usize, 1, 2, 4, 7, 10, 13, 14, 14]);
        c.lpc_order = *r.pick(&[1usize, 2, 3, 4, 8, 12, 16, 23, 24]);
        c.precision = *r.pick(&[1usize, 2, 3, 5, 8, 12, 14, 15]);
        c.tukey_alpha_bits = if r.chance(0.25) {
            None
        } else {
            let a = match r.below(6) {
                0 => 0.0f32,
                1 => 1.0,
                2 => 0.1,
                3 => 0.5,
                _ => r.f32_unit(),
            };
            Some(a.to_bits())
        };
        if cfg!(feature = "experimental") && r.chance(0.5) {
            c.direct_mse = r.chance(0.7);
            c.mae_steps = *r.pick(&[0usize, 1, 2, 5]);
            c.use_lpc = true;
        }
        c
    }
}

#[derive(Serialize, Deserialize, Clone, Debug, PartialEq)]
#[serde(tag = "kind")]
pub enum Fault {
    /// The k-th `read_samples` call (0-based) returns an error. With
    /// `after_fill` the block is first handed to the `Fill`.
    ReadError { k: usize, after_fill: bool, reason: u8 },
    /// The block delivered by read k holds `value` (outside the declared
    /// width) at (`ch`, `idx`).
    OutOfRange { k: usize, ch: usize, idx: usize, value: i32 },
    /// (C17 seam clause) read k fills `extra` more inter-channel samples than requested.
    Oversize { k: usize, extra: usize },
    /// (C17 seam clause) read k delivers bytes with a bytes-per-sample that disagrees with the width.
    WrongBps { k: usize, bps: usize },
    /// (C17, multi-thread slice) the entry point is called with this block size (outside 32..=32767)
    /// while the source keeps delivering blocks of the workload's size.
    BadBlockSize { block: u64 },
}

impl Fault {
    pub fn k(&self) -> usize {
        match self {
            Self::ReadError { k, .. } | Self::OutOfRange { k, .. } | Self::Oversize { k, .. } | Self::WrongBps { k, .. } => *k,
            Self::BadBlockSize { .. } => 0,
        }
    }
    pub fn set_k(&mut self, nk: usize) {
        match self {
            Self::ReadError { k, .. } | Self::OutOfRange { k, .. } | Self::Oversize { k, .. } | Self::WrongBps { k, .. } => *k = nk,
            Self::BadBlockSize { .. } => {}
        }
    }
    pub fn kind_name(&self) -> &'static str {
        match self {
            Self::ReadError { after_fill: false, .. } => "read_error",
            Self::ReadError { after_fill: true, .. } => "read_error_after_fill",
            Self::OutOfRange { .. } => "out_of_range",
            Self::Oversize { .. } => "oversize_fill",
            Self::WrongBps { .. } => "wrong_bytes_per_sample",
            Self::BadBlockSize { .. } => "bad_block_size",
        }
    }
}

#[derive(Serialize, Deserialize, Clone, Debug, PartialEq)]
pub struct Workload {
    pub channels: usize,
    pub bits: usize,
    pub rate: usize,
    pub block: usize,
    pub nfull: usize,
    pub residue: usize,
    pub sig_kinds: Vec<u8>,
    pub sig_seed: u64,
    pub cfg: CfgSpec,
    pub workers: Option<usize>,
    pub env_workers: Option<String>,
    pub len_hint: bool,
    /// 0 = every read as ints, 1 = every read as packed LE bytes, 2 = mixed per read.
    pub delivery: u8,
    pub short_reads: bool,
    /// 0 = "empty fill, then Ok(0)" (what MemSource does), 1 = "Ok(0) without any fill".
    pub eof_style: u8,
    pub read_seed: u64,
    pub faults: Vec<Fault>,
    /// capacity used for the hashing queue (16 = shipped constant).
    pub hashq_cap: usize,
    /// reads at which the source first tries to hand over more than a block (its "native chunk") and,
    /// when the `Fill` refuses that, falls back to a legal block - a legal delivery as far as the
    /// accepted fills are concerned.
    #[serde(default, skip_serializing_if = "Vec::is_empty")]
    pub probe_reads: Vec<usize>,
    /// the source's `len_hint` (when it has one) is off by this many samples - a hint is advisory (a file
    /// that grows, a header that lies); what STREAMINFO states must be what was consumed
    #[serde(default, skip_serializing_if = "is_zero_i64")]
    pub len_hint_off: i64,
    /// `block_size` field of the configuration when it differs from the block size passed to the entry
    /// point (the argument overrides the field; both are legal and independent)
    #[serde(default, skip_serializing_if = "Option::is_none")]
    pub cfg_block: Option<usize>,
    /// the source has a history: the caller reads this many blocks from it (into a scratch buffer) before
    /// handing it to the encoder; what the encoder consumes starts after them, while the source's
    /// `len_hint` (if any) keeps stating its whole length, as `MemSource` does.
    #[serde(default, skip_serializing_if = "is_zero")]
    pub pre_reads: usize,
    /// the input is `total_samples()` samples of silence generated block by block by the source, never
    /// materialised (streams of 2^32 samples and more); `sig_kinds` is ignored.
    #[serde(default, skip_serializing_if = "std::ops::Not::not")]
    pub synthetic_silence: bool,
    /// (C10, multi-thread slice) a call made on the same simulated main thread before this one.
    #[serde(default, skip_serializing_if = "Option::is_none")]
    pub pre: Option<Box<PreCall>>,
    /// the samples are delivered by the library's own `MemSource` (wrapped by the simulated source, which
    /// only keeps the books); plain workloads only: integer delivery, whole blocks, a true length hint
    #[serde(default, skip_serializing_if = "std::ops::Not::not")]
    pub via_mem: bool,
    /// the sink the resulting stream is emitted through (the same for every mode of the workload):
    /// 0 = `ByteSink`, 1 = `MemSink<u64>`, 2 = a user sink with the required methods only
    #[serde(default, skip_serializing_if = "is_zero_u8")]
    pub emit_sink: u8,
    /// frame-wise assembly reads its context, buffer and stream between two blocks (digest, counters, `Debug`)
    #[serde(default, skip_serializing_if = "std::ops::Not::not")]
    pub observers: bool,
}

fn is_zero_u8(v: &u8) -> bool {
    *v == 0
}

#[derive(Serialize, Deserialize, Clone, Debug, PartialEq)]
pub struct PreCall {
    pub w: Workload,
    /// the earlier call runs in multi-thread mode
    pub par: bool,
    /// the observed (last) call runs in single-thread mode instead of multi-thread mode
    pub last_single: bool,
    /// the other call is not made BEFORE the observed one but CONCURRENTLY with it, by a second caller
    /// thread of the same process (two encoders alive at the same time)
    #[serde(default, skip_serializing_if = "std::ops::Not::not")]
    pub concurrent: bool,
    /// the earlier call's stream is afterwards written, on the same thread, to a user sink that fails at this
    /// per-mille position of the write's operations (the error is returned to the harness and dropped)
    #[serde(default, skip_serializing_if = "Option::is_none")]
    pub failed_write: Option<u32>,
    pub derived: String,
}

#[derive(Clone, Debug, PartialEq)]
pub struct ReadPlan {
    pub len: usize,
    pub bytes: bool,
}

pub const BLOCKS_QUICK: &[usize] = &[32, 33, 48, 64, 65, 100, 128, 192, 255, 256, 257, 576];
pub const BLOCKS_THOROUGH: &[usize] = &[32, 33, 48, 64, 65, 100, 128, 192, 255, 256, 257, 576, 1152, 4096];
// table rates, and rates of every immediate coding class of the frame header: kHz (8 bit), Hz (16 bit), tens of Hz (16 bit)
pub const RATES: &[usize] = &[1, 8000, 16000, 22050, 44100, 48000, 95800, 96000, 11000, 12000, 64000, 1000, 12345, 65535, 65540, 88210, 32000, 88200];
pub const BITS: &[usize] = &[8, 12, 16, 20, 24];

impl Workload {
    /// The `block_size` field of the configuration handed to the entry point.
    pub fn config_block(&self) -> usize {
        self.cfg_block.unwrap_or(self.block)
    }

    pub fn total_samples(&self) -> usize {
        self.nfull * self.block + self.residue
    }

    pub fn bytes_per_sample(&self) -> usize {
        (self.bits + 7) / 8
    }

    /// The sequence of non-EOF reads: how many inter-channel samples each
    /// delivers and in which representation.
    pub fn plan_reads(&self) -> Vec<ReadPlan> {
        let mut r = Rng::new(self.read_seed);
        let mut lens = vec![];
        for _ in 0..self.nfull {
            if self.short_reads && self.block > 1 && r.chance(0.25) {
                let a = 1 + r.below(self.block - 1);
                lens.push(a);
                lens.push(self.block - a);
            } else {
                lens.push(self.block);
            }
        }
        if self.residue > 0 {
            lens.push(self.residue);
        }
        lens.into_iter()
            .map(|len| {
                let bytes = match self.delivery {
                    0 => false,
                    1 => true,
                    _ => r.chance(0.5),
                };
                ReadPlan { len, bytes }
            })
            .collect()
    }

    /// Interleaved samples of the whole input (before any fault is applied).
    pub fn samples(&self) -> Vec<i32> {
        if self.synthetic_silence {
            return vec![];
        }
        let n = self.total_samples();
        let ch = self.channels;
        let hi: i64 = (1i64 << (self.bits - 1)) - 1;
        let lo: i64 = -(1i64 << (self.bits - 1));
        let mut chans: Vec<Vec<i32>> = Vec::with_capacity(ch);
        for c in 0..ch {
            let kind = self.sig_kinds.get(c).copied().unwrap_or(0);
            let mut r = Rng::new(mix(self.sig_seed, c as u64 + 1));
            let mut v = Vec::with_capacity(n);
            let period = 3 + r.below(200);
            let amp_hi = (hi as f64) * (0.05 + 0.9 * f64::from(r.f32_unit()));
            let dc = r.range(lo, hi);
            let small = 1 + r.below(16) as i64;
            let imp_at = if n > 0 { r.below(n) } else { 0 };
            for t in 0..n {
                let x: i64 = match kind {
                    0 => 0,
                    1 => dc,
                    2 => lo + ((t as i64 * small) % (hi - lo + 1)),
                    3 => r.range(-small, small),
                    4 => r.range(lo, hi),
                    5 => (amp_hi * (std::f64::consts::TAU * t as f64 / period as f64).sin()) as i64,
                    6 => {
                        // full-scale alternating; at 24 bits the library's bit-count order
                        // selection degenerates on the exact full-scale pattern (frames of
                        // hundreds of MB, minutes per encode), so 24-bit uses 3/4 scale.
                        let (h, l) = if self.bits >= 24 { (hi / 4 * 3, lo / 4 * 3) } else { (hi, lo) };
                        if t % 2 == 0 {
                            h
                        } else {
                            l
                        }
                    }
                    7 => {
                        if t == imp_at {
                            if r.chance(0.5) {
                                hi
                            } else {
                                lo
                            }
                        } else {
                            0
                        }
                    }
                    8 if c > 0 => (-(i64::from(chans[0][t]))).clamp(lo, hi),
                    9 if c > 0 => i64::from(chans[0][t]),
                    10 => r.range(lo / 16, hi / 16),
                    // content that changes character over time: noise for the first 80 % then a tone, and the reverse
                    12 | 13 => {
                        let first = t * 5 < n * 4;
                        if first == (kind == 12) {
                            r.range(lo / 16, hi / 16)
                        } else {
                            (amp_hi * 0.4 * (std::f64::consts::TAU * t as f64 / period as f64).sin()) as i64
                        }
                    }
                    _ => {
                        (amp_hi * 0.5 * (std::f64::consts::TAU * t as f64 / period as f64).sin()) as i64
                            + r.range(-small, small)
                    }
                };
                v.push(x.clamp(lo, hi) as i32);
            }
            chans.push(v);
        }
        let mut out = Vec::with_capacity(n * ch);
        for t in 0..n {
            for c in chans.iter() {
                out.push(c[t]);
            }
        }
        out
    }

    pub fn hash(&self) -> u64 {
        super::rng::fnv(&serde_json::to_string(self).unwrap())
    }
}

#[derive(Clone, Copy, Debug, PartialEq, Eq)]
pub enum Tier {
    Quick,
    Thorough,
}

/// What a generated workload is for; shapes the mix, not the space.
#[derive(Clone, Copy, Debug, PartialEq, Eq)]
pub enum Purpose {
    /// fault-free, emphasis on configurations / worker counts / env override
    Equivalence,
    /// fault-free, emphasis on delivery modes, widths, length hint, EOF style
    StreamInfo,
    /// source fault plans
    Faults,
    /// Byzantine source (C17 seam clauses)
    Byzantine,
}

pub fn gen_format(r: &mut Rng, tier: Tier, small: bool) -> (usize, usize, usize, usize) {
    let channels = if r.chance(0.45) { 2 } else { 1 + r.below(8) };
    let bits = *r.pick(BITS);
    let rate = if r.chance(0.2) { 1 + r.below(96000) } else { *r.pick(RATES) };
    let blocks = if tier == Tier::Thorough && !small { BLOCKS_THOROUGH } else { BLOCKS_QUICK };
    let mut block = *r.pick(blocks);
    if small && block > 257 {
        block = 64;
    }
    (channels, bits, rate, block)
}

pub fn gen(purpose: Purpose, tier: Tier, seed: u64, index: u64) -> Workload {
    let mut r = Rng::new(mix(seed, index));
    let (channels, bits, rate, mut block) = gen_format(&mut r, tier, false);
    let maxfull = if tier == Tier::Thorough { 40 } else { 12 };
    let mut nfull = match r.below(10) {
        0 => 0,
        1 => 1,
        2..=6 => 1 + r.below(6),
        _ => r.below(maxfull + 1),
    };
    // keep the work per execution bounded
    while block * channels * nfull.max(1) > 40_000 && nfull > 2 {
        nfull /= 2;
    }
    if block * channels > 12_000 {
        block = 576;
    }
    let residue = match r.below(8) {
        0 | 1 => 0,
        2 => 1,
        3 => 15.min(block - 1),
        4 => 16.min(block - 1),
        5 => 17.min(block - 1),
        6 => block - 1,
        _ => r.below(block),
    };
    let sig_kinds: Vec<u8> = (0..channels).map(|_| r.below(14) as u8).collect();
    let cfg = CfgSpec::random(&mut r);
    let (workers, env_workers) = match r.below(100) {
        0..=74 => (Some(1 + r.below(if tier == Tier::Thorough { 8 } else { 4 })), None),
        75..=79 => (Some(1 + r.below(4)), Some((*r.pick(&["7", "0", "abc", "2"])).to_owned())),
        80..=94 => (None, Some((*r.pick(&["1", "2", "3", "4"])).to_owned())),
        95..=96 => (None, Some((*r.pick(&["abc", "", "-1", " 2"])).to_owned())),
        97 => (None, Some("0".to_owned())),
        _ => (None, None),
    };
    let mut w = Workload {
        channels,
        bits,
        rate,
        block,
        nfull,
        residue,
        sig_kinds,
        sig_seed: r.next_u64(),
        cfg,
        workers,
        env_workers,
        len_hint: r.chance(0.5),
        delivery: match r.below(10) {
            0..=4 => 0,
            5..=6 => 1,
            _ => 2,
        },
        short_reads: r.chance(0.06),
        eof_style: u8::from(r.chance(0.3)),
        read_seed: r.next_u64(),
        faults: vec![],
        // the capacity knob is retired (see DESIGN.md section 12): always the shipped depth; the draw is
        // kept so that the rest of the generated workload is unchanged
        hashq_cap: {
            let _ = r.pick(&[16usize, 16, 1, 2, 4]);
            16
        },
        probe_reads: vec![],
        len_hint_off: 0,
        cfg_block: None,
        pre_reads: 0,
        synthetic_silence: false,
        pre: None,
        via_mem: false,
        emit_sink: 0,
        observers: false,
    };
    // A small Rice-parameter cap on loud wide samples makes the library build
    // multi-megabyte unary runs per frame (slow, memory hungry) without adding
    // any scheduling behaviour: keep a few such cases, tiny, and lift the cap otherwise.
    let loud = w.sig_kinds.iter().any(|k| !matches!(k, 0 | 1 | 3));
    if loud && w.cfg.rice_max + 10 < w.bits {
        if r.chance(0.1) && w.bits < 20 {
            w.nfull = w.nfull.min(2);
            w.block = w.block.min(64);
            w.residue = w.residue.min(w.block - 1);
            w.channels = w.channels.min(2);
            w.sig_kinds.truncate(w.channels);
        } else {
            w.cfg.rice_max = 14;
        }
    }
    // Wide (20/24-bit) full-scale noise or alternation under predictive coding makes the library spend
    // tens of seconds and hundreds of megabytes per encode (giant residuals; the business of C09/C13, not
    // of a scheduling property). Such content is kept for verbatim/constant-only configurations and
    // replaced by quieter noise / a sine otherwise.
    if w.bits >= 20 && (w.cfg.use_fixed || w.cfg.use_lpc) {
        for k in &mut w.sig_kinds {
            *k = match *k {
                4 => 10,
                6 => 5,
                other => other,
            };
        }
    }
    // machine-parallelism classes run 16+ workers: keep those inputs small
    if w.workers.is_none() && !matches!(w.env_workers.as_deref(), Some("1" | "2" | "3" | "4")) {
        w.nfull = w.nfull.min(6);
        if w.block > 257 {
            w.block = 128;
            w.residue = w.residue.min(127);
        }
    }
    // Two size classes that the small default shapes cannot reach (swarm style, ~8 % each):
    // * deep queue - many tiny blocks with the shipped hashing-queue capacity, so that the hashing
    //   thread can really be 16 blocks behind the feeder (the capacity knob only shrinks the channel,
    //   it cannot make code that compares against the constant 16 take its "queue is full" path);
    // * large block - blocks x channels well above 16384 scalars (buffer-size thresholds in the
    //   conversion and hashing paths), few blocks, cheap configuration.
    match r.below(25) {
        0 | 1 => {
            w.block = *r.pick(&[32usize, 33, 48]);
            w.channels = 1 + r.below(2);
            w.sig_kinds.truncate(w.channels);
            w.nfull = 17 + r.below(if tier == Tier::Thorough { 44 } else { 24 });
            w.residue = w.residue.min(w.block - 1);
            w.cfg.use_lpc = false;
            w.hashq_cap = 16;
            if w.workers.is_none() {
                w.workers = Some(1 + r.below(3));
                w.env_workers = None;
            }
        }
        2 | 3 => {
            w.block = *r.pick(&[2048usize, 4096, 4608, 5000, 8192, 16384, 32767]);
            w.nfull = 1 + r.below(2);
            w.residue = *r.pick(&[0usize, 1, 1000, w.block - 1]);
            w.cfg.use_lpc = false;
            w.cfg.use_fixed = r.chance(0.3);
            if w.cfg.rice_max + 8 < w.bits {
                w.cfg.rice_max = 14;
            }
            for k in &mut w.sig_kinds {
                if matches!(*k, 4 | 6) {
                    *k = 10;
                }
            }
            if w.workers.is_none() {
                w.workers = Some(1 + r.below(3));
                w.env_workers = None;
            }
        }
        _ => {}
    }
    // long, heterogeneous, fully analysed: ~100 small mono blocks whose content changes character late in
    // the stream, with every predictor enabled (per-thread adaptive state needs many sub-frames of one kind
    // before the next kind arrives)
    if r.chance(0.03) {
        w.block = *r.pick(&[64usize, 96, 128]);
        w.channels = 1;
        w.sig_kinds = vec![12 + r.below(2) as u8];
        w.bits = 16;
        w.nfull = 90 + r.below(50);
        w.residue = *r.pick(&[0usize, 17]);
        w.cfg = CfgSpec::default_spec();
        w.hashq_cap = 16;
        if w.workers.is_none() {
            w.workers = Some(2 + r.below(3));
            w.env_workers = None;
        }
    }
    // many workers / odd-but-plausible values of the environment override (own PRNG stream, so that the
    // classes above keep their draws): more workers than frames, worker counts around 16/32/64 (2*W frame
    // buffers, W stop tokens), and values that parse with a sign, leading zeros or not at all.
    {
        let mut r2 = Rng::new(mix(mix(seed, index), 0x8A11_0001));
        let simple = w.nfull <= 12 && w.block <= 576 && !w.synthetic_silence;
        if simple && r2.chance(0.04) {
            w.workers = Some(*r2.pick(&[5usize, 8, 9, 15, 16, 17, 31, 32, 33, 64]));
            w.env_workers = if r2.chance(0.2) { Some((*r2.pick(&["1", "0", "x"])).to_owned()) } else { None };
            w.nfull = r2.below(7);
            if w.block > 257 {
                w.block = 64;
                w.residue = w.residue.min(63);
            }
        } else if simple && r2.chance(0.03) {
            w.workers = None;
            w.env_workers = Some((*r2.pick(&["+2", "003", "2 ", "\t3", "2\n", "1.0", "0x2", "5", "9", "17", "1e1", "-0", "+0", "00"])).to_owned());
            w.nfull = w.nfull.min(6);
            if w.block > 257 {
                w.block = 128;
                w.residue = w.residue.min(127);
            }
        }
    }
    // the configuration's own block_size field is independent of the argument the entry point is called with
    if r.chance(0.1) {
        w.cfg_block = Some(*r.pick(&[32usize, 192, 576, 1152, 4096, 4608, 32767]));
    }
    // Length classes that only a handful of runs can afford, placed at fixed indices so that every batch
    // of >= 2500 workloads contains them:
    // * many frames - more than 65536 frames (frame numbers whose coded form needs 4 bytes, counters
    //   beyond 16 bits): tiny constant blocks;
    // * (thorough, StreamInfo purpose) huge - 2^32 + a few samples of silence at the maximum block size,
    //   generated on the fly: the 36-bit total-sample field beyond 32 bits.
    if index % 2500 == 7 && !matches!(purpose, Purpose::Byzantine) {
        w.block = 32;
        w.channels = 1;
        w.bits = 8;
        w.sig_kinds = vec![*r.pick(&[0u8, 1])];
        w.nfull = 65_537 + r.below(300);
        w.residue = *r.pick(&[0usize, 1, 31]);
        w.cfg = CfgSpec::default_spec();
        w.cfg.use_lpc = false;
        w.hashq_cap = 16;
        w.short_reads = false;
        w.probe_reads.clear();
        w.pre_reads = 0;
        w.workers = Some(1 + r.below(3));
        w.env_workers = None;
    }
    if tier == Tier::Thorough && index == 11 && matches!(purpose, Purpose::StreamInfo) {
        w.block = 32767;
        w.channels = 1;
        w.bits = 8;
        w.sig_kinds = vec![0];
        w.synthetic_silence = true;
        w.nfull = (1usize << 32) / 32767;
        w.residue = (1usize << 32) % 32767 + 5;
        w.cfg = CfgSpec::default_spec();
        w.cfg.use_lpc = false;
        w.hashq_cap = 16;
        w.short_reads = false;
        w.len_hint = false;
        w.delivery = 1;
        w.probe_reads.clear();
        w.workers = Some(2);
        w.env_workers = None;
    }
    match purpose {
        Purpose::Equivalence => {}
        Purpose::StreamInfo => {
            w.delivery = r.below(3) as u8;
            w.len_hint = r.chance(0.4);
            w.eof_style = u8::from(r.chance(0.4));
            // cheap configurations: the STREAMINFO facts do not depend on them
            if r.chance(0.6) {
                w.cfg.use_lpc = false;
            }
            // a source whose length hint is off (too small or too large)
            if w.len_hint && r.chance(0.12) {
                w.len_hint_off = *r.pick(&[-1i64, 1, -17, 17, -1000, 1000, i64::from(i32::MAX)]);
            }
            // a source that was partly read by its owner before the encoder gets it
            if r.chance(0.1) && w.nfull >= 2 {
                w.pre_reads = 1 + r.below(w.nfull.min(3));
            }
            // a source that probes with an oversize chunk at some reads and falls back when refused
            if r.chance(0.08) {
                let nreads = w.plan_reads().len();
                for k in 0..nreads {
                    if r.chance(0.4) {
                        w.probe_reads.push(k);
                    }
                }
            }
        }
        Purpose::Faults => {
            let nreads = w.plan_reads().len();
            let nf = if r.chance(0.8) { 1 } else { 2 };
            for _ in 0..nf {
                let f = gen_fault(&mut r, &w, nreads);
                w.faults.push(f);
            }
        }
        Purpose::Byzantine => {
            let nreads = w.plan_reads().len();
            if nreads == 0 {
                w.nfull = 1;
            }
            let nreads = w.plan_reads().len();
            let k = r.below(nreads);
            let f = match r.below(7) {
                6 => {
                    // (the source may also be empty: the invalid argument must be rejected all the same)
                    if r.chance(0.4) {
                        w.nfull = 0;
                        w.residue = 0;
                    }
                    Fault::BadBlockSize {
                        block: *r.pick(&[0u64, 1, 16, 31, 32768, 40000, 65535, 65536, (1 << 16) + 64, (1 << 32) + 64, u64::MAX]),
                    }
                }
                0 | 3 => gen_out_of_range(&mut r, &w, k),
                1 | 4 => Fault::Oversize {
                    k,
                    extra: *r.pick(&[1usize, 2, 5, w.block, w.block * (w.channels - 1).max(1)]),
                },
                _ => {
                    let good = w.bytes_per_sample();
                    let mut bps = 1 + r.below(4);
                    if bps == good {
                        bps = if good == 4 { 1 } else { good + 1 };
                    }
                    Fault::WrongBps { k, bps }
                }
            };
            // sometimes a second bad block right after (or at) the first one: several failing frames
            // in flight at the same time
            if matches!(f, Fault::OutOfRange { .. }) && nreads > 1 && r.chance(0.35) {
                let k2 = (k + r.below(2)).min(nreads - 1);
                let f2 = gen_out_of_range(&mut r, &w, k2);
                w.faults.push(f);
                w.faults.push(f2);
                if r.chance(0.4) && k2 + 1 < nreads {
                    let f3 = gen_out_of_range(&mut r, &w, k2 + 1);
                    w.faults.push(f3);
                }
            } else {
                w.faults.push(f);
            }
        }
    }
    // a quarter of the plain fault-free workloads are delivered by the library's own `MemSource`
    {
        let mut r3 = Rng::new(mix(mix(seed, index), 0x8A11_0002));
        if matches!(purpose, Purpose::Equivalence | Purpose::StreamInfo)
            && w.delivery == 0
            && !w.short_reads
            && w.probe_reads.is_empty()
            && w.faults.is_empty()
            && !w.synthetic_silence
            && w.len_hint_off == 0
            && r3.chance(0.5)
        {
            w.via_mem = true;
            w.len_hint = true;
        }
        w.emit_sink = match r3.below(10) {
            0..=5 => 0,
            6..=8 => 1,
            _ => 2,
        };
        w.observers = r3.chance(0.5);
    }
    // block sizes off the fixed list (own PRNG stream): any size 32..=700, and the sizes the frame header codes
    // specially (192, 576 << n, 256 << n) that the small list lacks. Plain fault-free workloads only, so that
    // read plans and fault positions made above stay what they were.
    {
        let mut r4 = Rng::new(mix(mix(seed, index), 0x8A11_0003));
        let plain = w.nfull <= 12
            && w.block <= 576
            && !w.synthetic_silence
            && w.faults.is_empty()
            && w.probe_reads.is_empty()
            && w.pre_reads == 0
            && w.pre.is_none()
            && w.cfg_block.is_none();
        if plain && r4.chance(0.12) {
            if r4.chance(0.7) {
                w.block = 32 + r4.below(669);
            } else {
                w.block = *r4.pick(&[512usize, 1024, 1152, 2048, 2304]);
                w.nfull = w.nfull.min(3);
                if w.channels > 2 {
                    w.channels = 2;
                    w.sig_kinds.truncate(2);
                }
            }
            w.residue = match r4.below(4) {
                0 => 0,
                1 => w.block - 1,
                2 => 1,
                _ => r4.below(w.block),
            };
        }
    }
    w
}

pub fn gen_out_of_range(r: &mut Rng, w: &Workload, k: usize) -> Fault {
    let reads = w.plan_reads();
    let len = reads.get(k).map_or(1, |p| p.len).max(1);
    let half: i64 = 1i64 << (w.bits - 1);
    let value: i64 = match r.below(8) {
        0 => half,
        1 => -half - 1,
        2 => half + 1 + r.below(1000) as i64,
        3 => -half - 2 - r.below(1000) as i64,
        4 => i64::from(i32::MAX),
        5 => i64::from(i32::MIN),
        6 => half * 2,
        _ => -half * 2,
    };
    Fault::OutOfRange {
        k,
        ch: r.below(w.channels),
        idx: r.below(len),
        value: value.clamp(i64::from(i32::MIN), i64::from(i32::MAX)) as i32,
    }
}

fn gen_fault(r: &mut Rng, w: &Workload, nreads: usize) -> Fault {
    // positions biased towards in-flight state: first, around the point where
    // the frame buffers first run out (2*workers), the last block, the EOF read.
    let wk = w.workers.unwrap_or(2);
    let k_err = match r.below(8) {
        0 => 0,
        1 => nreads,
        2 => nreads.saturating_sub(1),
        3 => (2 * wk).min(nreads),
        4 => (2 * wk + 1).min(nreads),
        _ => r.below(nreads + 1),
    };
    if nreads == 0 || r.chance(0.5) {
        Fault::ReadError {
            k: k_err,
            after_fill: r.chance(0.3) && k_err < nreads,
            reason: r.below(10) as u8,
        }
    } else {
        let k = k_err.min(nreads - 1);
        gen_out_of_range(r, w, k)
    }
}

// ---------------------------------------------------------------------------------------------
// small workloads and "neighbouring" argument changes (call histories, C10)
// ---------------------------------------------------------------------------------------------

const SMALL_BLOCKS: &[usize] = &[32, 33, 40, 48, 64, 65, 100, 128, 192, 255, 256, 257];

pub fn tame(w: &mut Workload) {
    // keep the work per call small and avoid multi-megabyte unary runs (see workload.rs)
    if w.cfg.rice_max + 8 < w.bits && w.sig_kinds.iter().any(|k| !matches!(k, 0 | 1 | 3)) {
        if w.bits <= 12 {
            // small widths: a low cap is affordable
        } else {
            for k in &mut w.sig_kinds {
                if !matches!(*k, 0 | 1 | 3) {
                    *k = 3;
                }
            }
        }
    }
    if w.bits >= 20 && (w.cfg.use_fixed || w.cfg.use_lpc) {
        for k in &mut w.sig_kinds {
            *k = match *k {
                4 => 10,
                6 => 5,
                other => other,
            };
        }
    }
    while w.block * w.channels * (w.nfull + 1) > 6000 && w.nfull > 1 {
        w.nfull -= 1;
    }
    if w.block * w.channels > 2100 {
        w.block = 128;
    }
    w.residue = w.residue.min(w.block - 1);
    w.sig_kinds.resize(w.channels, 3);
    let nreads = w.plan_reads().len();
    w.faults.retain(|f| f.k() <= nreads);
}

pub fn fresh_small(r: &mut Rng) -> Workload {
    let channels = if r.chance(0.4) { 2 } else { 1 + r.below(8) };
    let bits = *r.pick(BITS);
    let block = if r.chance(0.15) { 32 + r.below(269) } else { *r.pick(SMALL_BLOCKS) };
    let nfull = match r.below(8) {
        0 => 0,
        1..=4 => 1,
        5 | 6 => 2,
        _ => 3,
    };
    let residue = *r.pick(&[0usize, 0, 1, 17, 31, block - 1]);
    let sig_kinds: Vec<u8> = (0..channels).map(|_| r.below(14) as u8).collect();
    let mut w = Workload {
        channels,
        bits,
        rate: *r.pick(RATES),
        block,
        nfull,
        residue,
        sig_kinds,
        sig_seed: r.next_u64(),
        cfg: CfgSpec::random(r),
        workers: None,
        env_workers: None,
        len_hint: r.chance(0.5),
        delivery: r.below(3) as u8,
        short_reads: r.chance(0.05),
        eof_style: u8::from(r.chance(0.3)),
        read_seed: r.next_u64(),
        faults: vec![],
        hashq_cap: 16,
        probe_reads: vec![],
        len_hint_off: 0,
        cfg_block: None,
        pre_reads: 0,
        synthetic_silence: false,
        pre: None,
        via_mem: false,
        emit_sink: 0,
        observers: false,
    };
    if w.nfull == 0 && w.residue == 0 && r.chance(0.7) {
        w.residue = 1 + r.below(w.block - 1);
    }
    tame(&mut w);
    w
}

/// One "neighbouring" change of the arguments of an earlier call - or, a quarter of the time, two of them
/// at once (keys, hashes and caches built from several fields may only collide when two fields move together).
pub fn neighbour(w0: &Workload, r: &mut Rng) -> (Workload, String) {
    let (w1, t1) = neighbour_one(w0, r);
    if r.chance(0.25) {
        let (w2, t2) = neighbour_one(&w1, r);
        if t2 != "same" && t2 != t1 {
            let mut w2 = w2;
            // the second change must not undo what a failing-source change of the first one added
            if w2.faults.is_empty() {
                w2.faults = w1.faults.clone();
                let nreads = w2.plan_reads().len();
                w2.faults.retain(|f| f.k() <= nreads);
            }
            return (w2, format!("{t1}+{t2}"));
        }
    }
    (w1, t1)
}

fn neighbour_one(w0: &Workload, r: &mut Rng) -> (Workload, String) {
    let mut w = w0.clone();
    w.faults.clear();
    let tag = match r.below(20) {
        0 | 1 => {
            // shrink or grow the block size
            let smaller: Vec<usize> = SMALL_BLOCKS.iter().copied().filter(|b| *b < w.block).collect();
            let larger: Vec<usize> = SMALL_BLOCKS.iter().copied().filter(|b| *b > w.block).collect();
            let (pool, t) = if (r.chance(0.5) && !smaller.is_empty()) || larger.is_empty() { (smaller, "block_smaller") } else { (larger, "block_larger") };
            if pool.is_empty() {
                "same"
            } else {
                w.block = *r.pick(&pool);
                t
            }
        }
        2 | 3 => {
            let old = w.channels;
            w.channels = *r.pick(&[1usize, 2, 2, 3, 5, 8]);
            let seed = r.next_u64();
            let mut rr = Rng::new(seed);
            w.sig_kinds = (0..w.channels).map(|i| w0.sig_kinds.get(i).copied().unwrap_or_else(|| rr.below(14) as u8)).collect();
            if w.channels == old {
                "same"
            } else if w.channels < old {
                "channels_fewer"
            } else {
                "channels_more"
            }
        }
        4 | 5 => {
            let old = w.bits;
            w.bits = *r.pick(BITS);
            if w.bits == old {
                "same"
            } else if w.bits < old {
                "bits_narrower"
            } else {
                "bits_wider"
            }
        }
        6 => {
            w.cfg.rice_max = if w.cfg.rice_max >= 7 { *r.pick(&[0usize, 1, 2]) } else { 14 };
            "rice_max_flip"
        }
        7 => {
            w.cfg.fixed_max_order = if w.cfg.fixed_max_order >= 2 { 0 } else { 4 };
            "fixed_order_flip"
        }
        8 | 9 | 10 => {
            // Tukey parameters that differ by a few ulp (less than 2^-16)
            let base = match w.cfg.tukey_alpha_bits {
                Some(b) => f32::from_bits(b),
                None => 0.1 + 0.8 * r.f32_unit(),
            };
            // bit-level neighbours: a small uniform distance, or a structured one (a power of two, or the
            // sum of two - what XOR-ing small integers into the bit pattern produces), added, subtracted or XOR-ed
            let d = if r.chance(0.5) {
                1 + r.below(300) as u32
            } else {
                let a = 1u32 << r.below(13);
                if r.chance(0.3) {
                    a | (1u32 << r.below(13))
                } else {
                    a
                }
            };
            let nb = match r.below(3) {
                0 => base.to_bits().wrapping_add(d),
                1 => base.to_bits().wrapping_sub(d),
                _ => base.to_bits() ^ d,
            };
            let a = f32::from_bits(nb);
            if a.is_finite() && (0.0..=1.0).contains(&a) {
                w.cfg.tukey_alpha_bits = Some(nb);
                w.cfg.use_lpc = true;
                "alpha_ulp"
            } else {
                "same"
            }
        }
        11 => {
            w.cfg.tukey_alpha_bits = match w.cfg.tukey_alpha_bits {
                Some(_) if r.chance(0.5) => None,
                _ => Some((r.f32_unit()).to_bits()),
            };
            "window_other"
        }
        12 => {
            w.cfg.lpc_order = *r.pick(&[1usize, 2, 8, 12, 24]);
            w.cfg.precision = *r.pick(&[1usize, 5, 12, 15]);
            "lpc_order_precision"
        }
        13 => {
            match r.below(6) {
                0 => w.cfg.use_lpc = !w.cfg.use_lpc,
                1 => w.cfg.use_fixed = !w.cfg.use_fixed,
                2 => w.cfg.use_constant = !w.cfg.use_constant,
                3 => w.cfg.use_midside = !w.cfg.use_midside,
                4 => w.cfg.use_leftside = !w.cfg.use_leftside,
                _ => w.cfg.use_rightside = !w.cfg.use_rightside,
            }
            "switch_toggle"
        }
        14 => {
            w.nfull = *r.pick(&[0usize, 1, 2, 3]);
            w.residue = *r.pick(&[0usize, 1, 17, w.block - 1]);
            "length"
        }
        15 => {
            w.sig_seed = r.next_u64();
            "signal_seed"
        }
        16 => {
            w.cfg.approx_ent_partitions = match w.cfg.approx_ent_partitions {
                None => Some(*r.pick(&[1usize, 2, 8, 64])),
                Some(_) => None,
            };
            "order_selection"
        }
        17 => {
            w.delivery = (w.delivery + 1 + r.below(2) as u8) % 3;
            "delivery"
        }
        18 => {
            // the same call, but the source fails part-way (state after an error return)
            let nreads = w.plan_reads().len();
            if nreads == 0 {
                "same"
            } else if r.chance(0.5) {
                w.faults.push(Fault::ReadError {
                    k: r.below(nreads + 1),
                    after_fill: r.chance(0.3),
                    reason: r.below(10) as u8,
                });
                "source_fails"
            } else {
                let k = r.below(nreads);
                w.faults.push(gen_out_of_range(r, &w, k));
                "sample_out_of_range"
            }
        }
        _ => "same",
    };
    tame(&mut w);
    (w, tag.to_owned())
}

