//! A process-wide `log` logger that really formats every record (so that the arguments of the library's
//! `info!`/`debug!` calls are evaluated). Whether one is installed is part of the environment the
//! simulation varies: odd-numbered child processes install it, and a replay file records it.

struct FormatAll;

impl log::Log for FormatAll {
    fn enabled(&self, _: &log::Metadata) -> bool {
        true
    }
    fn log(&self, record: &log::Record) {
        let s = format!("{} {}", record.target(), record.args());
        std::hint::black_box(s.len());
    }
    fn flush(&self) {}
}

static LOGGER: FormatAll = FormatAll;

pub fn install() {
    if log::set_logger(&LOGGER).is_ok() {
        log::set_max_level(log::LevelFilter::Trace);
    }
}

/// Whether `install` has been called in this process.
pub fn installed() -> bool {
    log::max_level() == log::LevelFilter::Trace
}
