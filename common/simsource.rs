//! `SimSource`: the sample source as a simulated peer. It follows a scripted
//! read plan (length and representation of every read), injects the
//! workload's faults at the scripted read index and records what it handed out.

use super::workload::{Fault, ReadPlan, Workload};
use flacenc::error::{SourceError, SourceErrorReason};
use flacenc::source::{Fill, Source};

pub struct SimSource {
    channels: usize,
    bits: usize,
    rate: usize,
    data: Vec<i32>,
    plan: Vec<ReadPlan>,
    faults: Vec<Fault>,
    len_hint: Option<usize>,
    eof_style: u8,
    pos: usize,
    /// number of `read_samples` calls so far
    pub reads: usize,
    /// the samples handed to the `Fill` by successful fills, in order: their number (scalars) and the
    /// MD5 of their little-endian serialisation at the byte-rounded width, computed independently of
    /// the library as the samples leave the source
    pub handed_len: usize,
    handed_hash: md5::Md5,
    synthetic: bool,
    /// inter-channel samples reported as read
    pub reported: usize,
    /// names of the faults that actually fired
    pub fired: Vec<&'static str>,
    /// number of reads issued after the source had already returned an error
    pub reads_after_error: usize,
    /// oversize probe fills attempted / refused by the `Fill` (see `Workload::probe_reads`)
    pub probes_tried: usize,
    pub probes_refused: usize,
    probe_reads: Vec<usize>,
    errored: bool,
    tmp: Vec<i32>,
    bytebuf: Vec<u8>,
    hashbuf: Vec<u8>,
    /// the library's own in-memory source doing the delivery (`Workload::via_mem`); this wrapper then only
    /// keeps the books: what a `MemSource` made from `data` has to hand over is `data`, in order
    lib_mem: Option<flacenc::source::MemSource>,
}

pub fn make_source_error(reason: u8, k: usize) -> SourceError {
    match reason {
        0 => SourceError::from_unknown(),
        1 => SourceError::by_reason(SourceErrorReason::Open),
        2 => SourceError::by_reason(SourceErrorReason::InvalidBuffer),
        3 => SourceError::by_reason(SourceErrorReason::InvalidFormat),
        4 => SourceError::by_reason(SourceErrorReason::UnsupportedFormat),
        5 => SourceError::from_io_error(std::io::Error::new(
            std::io::ErrorKind::Other,
            format!("sim-fault@read{k}"),
        )),
        // the transient-looking kinds a reader meets: EINTR, EAGAIN, a short file, a timeout
        6 => SourceError::from_io_error(std::io::Error::from(std::io::ErrorKind::Interrupted)),
        7 => SourceError::from_io_error(std::io::Error::from(std::io::ErrorKind::WouldBlock)),
        8 => SourceError::from_io_error(std::io::Error::from(std::io::ErrorKind::UnexpectedEof)),
        _ => SourceError::from_io_error(std::io::Error::from(std::io::ErrorKind::TimedOut)),
    }
}

fn fits(v: i32, bps: usize) -> bool {
    if bps >= 4 {
        return true;
    }
    let half = 1i64 << (8 * bps - 1);
    (i64::from(v)) >= -half && i64::from(v) < half
}

pub fn to_le_bytes(ints: &[i32], bps: usize, out: &mut Vec<u8>) {
    out.clear();
    for v in ints {
        out.extend_from_slice(&v.to_le_bytes()[..bps]);
    }
}

impl SimSource {
    pub fn new(w: &Workload) -> Self {
        Self::with_data(w, w.samples())
    }

    pub fn with_data(w: &Workload, data: Vec<i32>) -> Self {
        Self {
            channels: w.channels,
            bits: w.bits,
            rate: w.rate,
            data,
            plan: w.plan_reads(),
            faults: w.faults.clone(),
            len_hint: w.len_hint.then(|| (w.total_samples() as i64).saturating_add(w.len_hint_off).max(0) as usize),
            eof_style: w.eof_style,
            pos: 0,
            reads: 0,
            handed_len: 0,
            handed_hash: <md5::Md5 as md5::Digest>::new(),
            synthetic: w.synthetic_silence,
            reported: 0,
            fired: vec![],
            reads_after_error: 0,
            probes_tried: 0,
            probes_refused: 0,
            probe_reads: w.probe_reads.clone(),
            errored: false,
            tmp: vec![],
            bytebuf: vec![],
            hashbuf: vec![],
            lib_mem: None,
        }
        .with_lib_mem(w.via_mem)
    }

    fn with_lib_mem(mut self, on: bool) -> Self {
        if on {
            self.lib_mem = Some(flacenc::source::MemSource::from_samples(&self.data, self.channels, self.bits, self.rate));
        }
        self
    }

    pub fn bytes_per_sample(&self) -> usize {
        (self.bits + 7) / 8
    }

    /// The owner of the source reads `n` blocks itself (into a throw-away buffer) before anybody else gets
    /// the source; the hand-over counters then restart, so that they describe what the NEXT consumer gets.
    pub fn pre_read(&mut self, n: usize, block_size: usize) {
        struct Scratch;
        impl Fill for Scratch {
            fn fill_interleaved(&mut self, _: &[i32]) -> Result<(), SourceError> {
                Ok(())
            }
            fn fill_le_bytes(&mut self, _: &[u8], _: usize) -> Result<(), SourceError> {
                Ok(())
            }
        }
        for _ in 0..n {
            let _ = self.read_samples(block_size, &mut Scratch);
        }
        self.handed_len = 0;
        self.handed_hash = <md5::Md5 as md5::Digest>::new();
        self.reported = 0;
    }

    /// MD5 of everything handed over so far (see `handed_len`).
    pub fn handed_md5(&self) -> [u8; 16] {
        use md5::Digest;
        self.handed_hash.clone().finalize().into()
    }

    /// Replaces the read plan (lengths and representation of every read).
    #[allow(dead_code)]
    pub fn set_plan(&mut self, plan: Vec<ReadPlan>) {
        self.plan = plan;
    }
}

impl Source for SimSource {
    fn channels(&self) -> usize {
        self.channels
    }
    fn bits_per_sample(&self) -> usize {
        self.bits
    }
    fn sample_rate(&self) -> usize {
        self.rate
    }
    fn len_hint(&self) -> Option<usize> {
        if let Some(ms) = &self.lib_mem {
            return ms.len_hint();
        }
        self.len_hint
    }

    fn read_samples<F: Fill>(&mut self, block_size: usize, dest: &mut F) -> Result<usize, SourceError> {
        super::rng::tick();
        let k = self.reads;
        self.reads += 1;
        if self.errored {
            self.reads_after_error += 1;
        }
        if let Some(ms) = &mut self.lib_mem {
            let n = ms.read_samples(block_size, dest)?;
            let ch = self.channels;
            let end = ((self.pos + n) * ch).min(self.data.len());
            let start = (self.pos * ch).min(end);
            {
                use md5::Digest;
                let hb = (self.bits + 7) / 8;
                let mut hbuf = std::mem::take(&mut self.hashbuf);
                to_le_bytes(&self.data[start..end], hb, &mut hbuf);
                self.handed_hash.update(&hbuf);
                self.hashbuf = hbuf;
            }
            self.handed_len += n * ch;
            self.pos += n;
            self.reported += n;
            return Ok(n);
        }
        let mut err_after: Option<SourceError> = None;
        for f in &self.faults {
            if let Fault::ReadError { k: fk, after_fill, reason } = f {
                if *fk == k {
                    if *after_fill && k < self.plan.len() {
                        err_after = Some(make_source_error(*reason, k));
                    } else {
                        self.fired.push("read_error");
                        self.errored = true;
                        return Err(make_source_error(*reason, k));
                    }
                }
            }
        }
        if k >= self.plan.len() {
            if self.eof_style == 0 {
                dest.fill_interleaved(&[])?;
            }
            return Ok(0);
        }
        let ch = self.channels;
        let n = self.plan[k].len.min(block_size);
        let mut as_bytes = self.plan[k].bytes;
        self.tmp.clear();
        if self.synthetic {
            self.tmp.resize(n * ch, 0);
        } else {
            self.tmp
                .extend_from_slice(&self.data[self.pos * ch..(self.pos + n) * ch]);
        }
        let mut wrong_bps: Option<usize> = None;
        let mut reported = n;
        for f in &self.faults {
            match f {
                Fault::OutOfRange { k: fk, ch: fc, idx, value } if *fk == k => {
                    let i = (*idx).min(n - 1) * ch + (*fc).min(ch - 1);
                    self.tmp[i] = *value;
                    self.fired.push("out_of_range");
                }
                Fault::Oversize { k: fk, extra } if *fk == k => {
                    // more than the buffer holds: `extra` samples beyond the requested block size
                    // (a read shorter than a block is padded up to the block first)
                    let total = block_size + *extra;
                    let mut j = 0;
                    while self.tmp.len() < total * ch {
                        let v = self.tmp[j % (n * ch)];
                        self.tmp.push(v);
                        j += 1;
                    }
                    reported = total;
                    self.fired.push("oversize_fill");
                }
                Fault::WrongBps { k: fk, bps } if *fk == k => {
                    wrong_bps = Some(*bps);
                    self.fired.push("wrong_bytes_per_sample");
                }
                _ => {}
            }
        }
        let bps = self.bytes_per_sample();
        if self.probe_reads.contains(&k) && wrong_bps.is_none() {
            // first offer the "native chunk": the block plus 7 more samples than fit
            let mut big = self.tmp.clone();
            let mut j = 0;
            while big.len() < (block_size + 7) * ch {
                big.push(self.tmp[j % (n * ch)]);
                j += 1;
            }
            self.probes_tried += 1;
            if dest.fill_interleaved(&big).is_err() {
                self.probes_refused += 1;
            }
        }
        if let Some(wb) = wrong_bps {
            // same audio, serialised at a width that disagrees with the stream
            self.bytebuf.clear();
            for v in &self.tmp {
                let b = i64::from(*v).to_le_bytes();
                self.bytebuf.extend_from_slice(&b[..wb]);
            }
            dest.fill_le_bytes(&self.bytebuf, wb)?;
        } else {
            if as_bytes && !self.tmp.iter().all(|v| fits(*v, bps)) {
                as_bytes = false; // not representable: hand it over as ints
            }
            if as_bytes {
                // the byte slice starts at a varying address offset (1, 2, 3, 0, ... bytes into the
                // allocation): a reader hands over whatever part of its buffer holds the block
                let off = (k * 5 + 1) % 4;
                let mut bb = std::mem::take(&mut self.bytebuf);
                to_le_bytes(&self.tmp, bps, &mut bb);
                bb.splice(0..0, std::iter::repeat(0xEEu8).take(off));
                let r = dest.fill_le_bytes(&bb[off..], bps);
                self.bytebuf = bb;
                r?;
            } else {
                dest.fill_interleaved(&self.tmp)?;
            }
        }
        {
            use md5::Digest;
            let hb = self.bytes_per_sample();
            if self.synthetic && self.tmp.iter().all(|v| *v == 0) {
                self.hashbuf.clear();
                self.hashbuf.resize(self.tmp.len() * hb, 0);
            } else {
                let mut hbuf = std::mem::take(&mut self.hashbuf);
                to_le_bytes(&self.tmp, hb, &mut hbuf);
                self.hashbuf = hbuf;
            }
            self.handed_hash.update(&self.hashbuf);
            self.handed_len += self.tmp.len();
        }
        self.pos += n;
        self.reported += reported;
        if let Some(e) = err_after {
            self.fired.push("read_error_after_fill");
            self.errored = true;
            return Err(e);
        }
        Ok(reported)
    }
}
