//! mirisim <workers> <frames> <channels> <fault> [k]
//!   fault: none | readerr | oor      (k = index of the failing read / block)
//! Runs the multi-thread encoder (real threads, real crossbeam-channel) and the single-thread
//! encoder on the same tiny scripted source and compares the results. Exit 0 = agree,
//! 1 = disagreement (printed), anything else = Miri's own report (deadlock, data race, leaked thread).

use flacenc::bitsink::ByteSink;
use flacenc::component::BitRepr;
use flacenc::error::{EncodeError, SourceError, Verify};
use flacenc::source::{Fill, Source};

struct Src {
    channels: usize,
    frames: usize,
    block: usize,
    k: usize,
    fault: u8,
    reads: usize,
}

impl Source for Src {
    fn channels(&self) -> usize {
        self.channels
    }
    fn bits_per_sample(&self) -> usize {
        8
    }
    fn sample_rate(&self) -> usize {
        8000
    }
    fn read_samples<F: Fill>(&mut self, block_size: usize, dest: &mut F) -> Result<usize, SourceError> {
        let i = self.reads;
        self.reads += 1;
        if self.fault == 1 && i == self.k {
            return Err(SourceError::from_unknown());
        }
        if i >= self.frames {
            dest.fill_interleaved(&[])?;
            return Ok(0);
        }
        let n = block_size.min(self.block);
        let mut v: Vec<i32> = (0..n * self.channels).map(|t| (((t + 7 * i) * 37) % 200) as i32 - 100).collect();
        if self.fault == 2 && i == self.k {
            v[0] = 4000;
        }
        dest.fill_interleaved(&v)?;
        Ok(n)
    }
}

fn encode(multithread: bool, workers: usize, frames: usize, channels: usize, fault: u8, k: usize) -> Result<Vec<u8>, String> {
    let mut cfg = flacenc::config::Encoder::default();
    cfg.multithread = multithread;
    cfg.workers = std::num::NonZeroUsize::new(workers);
    cfg.subframe_coding.use_lpc = false;
    cfg.block_size = 32;
    let cfg = cfg.into_verified().map_err(|e| format!("config: {:?}", e.1))?;
    let src = Src {
        channels,
        frames,
        block: 32,
        k,
        fault,
        reads: 0,
    };
    match flacenc::encode_with_fixed_block_size(&cfg, src, 32) {
        Ok(s) => {
            let mut sink = ByteSink::new();
            s.write(&mut sink).map_err(|e| format!("write: {e}"))?;
            Ok(sink.into_inner())
        }
        Err(EncodeError::Source(e)) => Err(format!("Source: {e}")),
        Err(EncodeError::Config(e)) => Err(format!("Config: {e}")),
        Err(e) => Err(format!("Other: {e}")),
    }
}

fn main() {
    let a: Vec<String> = std::env::args().collect();
    let workers: usize = a.get(1).and_then(|s| s.parse().ok()).unwrap_or(2);
    let frames: usize = a.get(2).and_then(|s| s.parse().ok()).unwrap_or(3);
    let channels: usize = a.get(3).and_then(|s| s.parse().ok()).unwrap_or(1);
    let fault = match a.get(4).map(String::as_str) {
        Some("readerr") => 1,
        Some("oor") => 2,
        _ => 0,
    };
    let k: usize = a.get(5).and_then(|s| s.parse().ok()).unwrap_or(0);
    let single = encode(false, workers, frames, channels, fault, k);
    let par = encode(true, workers, frames, channels, fault, k);
    if single != par {
        println!("MIRISIM-DISAGREE single={:?} par={:?}", single.as_ref().map(Vec::len), par.as_ref().map(Vec::len));
        std::process::exit(1);
    }
    println!("MIRISIM-AGREE {}", match &single {
        Ok(b) => format!("Ok({} bytes)", b.len()),
        Err(e) => format!("Err({e})"),
    });
}
