#!/usr/bin/env python3
"""Regenerate /verif/shadow/flacenc/Cargo.toml from /repo/Cargo.toml.

The shadow manifest builds /repo/src (working tree) as crate `flacenc` with an
extra `shuttle` dependency, so that `--cfg flacenc_verif` code can refer to
shuttle while /repo/Cargo.toml and Cargo.lock stay untouched.
"""
import os, re, sys

REPO = os.environ.get("VERIF_REPO", "/repo")
HERE = os.path.dirname(os.path.abspath(__file__))
OUT = os.path.join(HERE, "shadow", "flacenc")
OUT_PLAIN = os.path.join(HERE, "shadow", "flacenc-plain")


def generate(repo=REPO, out=None, shuttle=True):
    """shuttle=True: manifest for the guard-on build (adds the shuttle dependency);
    shuttle=False: the same sources and dependencies, nothing added (guard-off build of the
    working tree at `repo`, used by seamsim so that VERIF_REPO can point at a scratch copy)."""
    if out is None:
        out = OUT if shuttle else OUT_PLAIN
    src = open(os.path.join(repo, "Cargo.toml")).read()
    lines = src.splitlines()
    res = []
    section = None
    pkg_done = False
    for ln in lines:
        m = re.match(r"^\s*\[([^\]]+)\]\s*$", ln)
        if m:
            if section == "package" and not pkg_done:
                res.append('build = "%s/build.rs"' % repo)
                pkg_done = True
            section = m.group(1).strip()
            if section in ("dev-dependencies",):
                res.append(ln)
                continue
        if section == "package" and re.match(r"^\s*(build|readme)\s*=", ln):
            continue
        if section == "dev-dependencies" and not m:
            continue  # dev-dependencies are not needed by the harness
        res.append(ln)
    if section == "package" and not pkg_done:
        res.append('build = "%s/build.rs"' % repo)
    text = "\n".join(res) + "\n"
    text += '\n[lib]\nname = "flacenc"\npath = "%s/src/lib.rs"\n' % repo
    # extra dependency for the guarded seam
    if shuttle:
        text = text.replace("[dependencies]\n", '[dependencies]\nshuttle = "0.9.3"\n', 1)
    text += "\n[workspace]\n"
    os.makedirs(out, exist_ok=True)
    p = os.path.join(out, "Cargo.toml")
    old = open(p).read() if os.path.exists(p) else None
    if old != text:
        open(p, "w").write(text)
    return p


if __name__ == "__main__":
    print(generate(shuttle=True))
    print(generate(shuttle=False))
