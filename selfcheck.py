"""Self-checks of the simulation machinery (see DESIGN.md section 4.6).

  ./run.py selfcheck determinism [--n N]     every part twice, with 4 and with 16 children; digests must agree
  ./run.py selfcheck mutants [name ...]      every mutants/*.patch must make its property's quick check report
                                             a VIOLATION on a scratch copy; the unpatched copy must stay silent
  ./run.py selfcheck patch <file> <prop>...  run the quick checks of the given properties on a scratch copy of
                                             /repo with <file> applied (used for the seeded changes)

Scratch copies are git worktrees of /repo's HEAD under /tmp (outside /repo and /verif), removed afterwards
together with their build output (target-*-scratch).
"""
import json
import os
import shutil
import subprocess
import sys
import time

HERE = os.path.dirname(os.path.abspath(__file__))
RECORD = os.path.join(HERE, "selfcheck")
CLAIMED = ["C03", "C05", "C06", "C10", "C11", "C12", "C14", "C16", "C17"]

IGNORE = {"wall_s", "samples", "budget_max_ratio"}


def _clean(m):
    return {k: v for k, v in m.items() if k not in IGNORE}


def determinism(args, R):
    n = 300
    if "--n" in args:
        n = int(args[args.index("--n") + 1])
    R.build({"parsim", "seamsim"})
    os.makedirs(RECORD, exist_ok=True)
    ddir = os.path.join(HERE, "tmp", "digests")
    report = {"started": time.strftime("%Y-%m-%dT%H:%M:%SZ", time.gmtime()), "parts": [], "divergences": 0}
    seeds = [1, 20260929]
    t0 = time.time()
    for prop in CLAIMED:
        for engine, sub, tiers in R.PLANS[prop]:
            if "quick" not in tiers or engine == "seamsim-checked":
                continue
            params = dict(tiers["quick"])
            # enumerated checks (count = corpus size) keep their size; seeded ones are cut to n cases
            if params["count"] > n and not (engine == "seamsim" and sub in ("C12", "C16")):
                params["count"] = n
            if "scheds" in params:
                params["scheds"] = min(params["scheds"], 6)
            for seed in seeds:
                runs = []
                for label, nchild in (("16a", 16), ("4", 4), ("16b", 16)):
                    shutil.rmtree(ddir, ignore_errors=True)
                    os.makedirs(ddir, exist_ok=True)
                    sums, cands = R.run_part(prop, engine, sub, "quick", seed, params, nchild=nchild,
                                             digests_dir=ddir if engine == "parsim" else None)
                    lines = []
                    for f in sorted(os.listdir(ddir)):
                        lines += open(os.path.join(ddir, f)).read().split("\n")
                    lines = sorted(x for x in lines if x)
                    runs.append((label, _clean(R.merge(sums)), lines, len(cands)))
                base = runs[0]
                ok = True
                for label, merged, lines, nc in runs[1:]:
                    if merged != base[1] or lines != base[2] or nc != base[3]:
                        ok = False
                        report["divergences"] += 1
                        diff = [k for k in set(merged) | set(base[1]) if merged.get(k) != base[1].get(k)]
                        R.log("DIVERGENCE %s/%s seed %d: run %s vs %s: keys %s, digest lines %d vs %d" %
                              (engine, sub, seed, label, base[0], diff, len(lines), len(base[2])))
                report["parts"].append({"engine": engine, "sub": sub, "seed": seed, "cases": base[1].get("executions", base[1].get("cases")),
                                        "per_run_digest_lines": len(base[2]), "identical": ok})
                R.log("determinism %s/%s seed %d: %s cases x 3 runs (16, 4, 16 children): %s" %
                      (engine, sub, seed, base[1].get("executions", base[1].get("cases")), "identical" if ok else "DIVERGED"))
    shutil.rmtree(ddir, ignore_errors=True)
    report["wall_s"] = round(time.time() - t0, 1)
    json.dump(report, open(os.path.join(RECORD, "determinism.json"), "w"), indent=1)
    if report["divergences"]:
        sys.stderr.write("HARNESS-ERROR: %d divergence(s)\n" % report["divergences"])
        return 2
    return 0


# ----------------------------------------------------------------------------------------------
def _scratch_new():
    d = "/tmp/verif-scratch-%d" % os.getpid()
    subprocess.run(["git", "-C", "/repo", "worktree", "remove", "--force", d], stdout=subprocess.DEVNULL, stderr=subprocess.DEVNULL)
    subprocess.run(["git", "-C", "/repo", "worktree", "add", "-q", "--detach", d, "HEAD"], check=True)
    return d


def _scratch_remove(d, keep_build=False):
    subprocess.run(["git", "-C", "/repo", "worktree", "remove", "--force", d], stdout=subprocess.DEVNULL, stderr=subprocess.DEVNULL)
    shutil.rmtree(d, ignore_errors=True)
    if not keep_build:
        for t in os.listdir(HERE):
            if t.startswith("target-") and t.endswith("-scratch"):
                shutil.rmtree(os.path.join(HERE, t), ignore_errors=True)
    shutil.rmtree(os.path.join(HERE, "tmp", "evidence-scratch"), ignore_errors=True)


def _run_check(scratch, prop, tier="quick", timeout=3600):
    env = dict(os.environ, VERIF_REPO=scratch)
    t0 = time.time()
    p = subprocess.run([os.path.join(HERE, "run.py"), "check", prop, "--tier", tier], cwd=HERE, env=env,
                       stdout=subprocess.PIPE, stderr=subprocess.STDOUT, text=True, timeout=timeout)
    viol = [ln for ln in p.stdout.splitlines() if ln.startswith("VIOLATION ")]
    detail = [ln.strip() for ln in p.stdout.splitlines() if ln.startswith("  class=")]
    return p.returncode, viol, detail, time.time() - t0, p.stdout


def _apply(scratch, patch):
    subprocess.run(["git", "-C", scratch, "checkout", "--", "."], check=True)
    text = "".join(ln for ln in open(patch) if not ln.startswith("# "))
    p = subprocess.run(["git", "-C", scratch, "apply", "--whitespace=nowarn", "-"], input=text, text=True,
                       stdout=subprocess.PIPE, stderr=subprocess.STDOUT)
    if p.returncode != 0:
        raise RuntimeError("patch %s does not apply: %s" % (patch, p.stdout))


def mutants(args, R):
    mdir = os.path.join(HERE, "mutants")
    names = [a for a in args if not a.startswith("-")]
    patches = sorted(f for f in os.listdir(mdir) if f.endswith(".patch") and (not names or f[:-6] in names))
    scratch = _scratch_new()
    os.makedirs(RECORD, exist_ok=True)
    results = []
    bad = 0
    try:
        # control: the unpatched copy must be silent for every property a mutant targets
        props = sorted({open(os.path.join(mdir, f)).readline().split(":")[1].strip() for f in patches})
        for prop in props:
            rc, viol, detail, took, out = _run_check(scratch, prop)
            R.log("control %s on the unpatched copy: exit %d (%.0f s)" % (prop, rc, took))
            results.append({"mutant": None, "property": prop, "exit": rc, "violations": viol})
            if rc != 0:
                bad += 1
                R.log(out[-1500:])
        for f in patches:
            head = open(os.path.join(mdir, f)).read().splitlines()
            prop = head[0].split(":")[1].strip()
            what = head[1].split(":", 1)[1].strip()
            _apply(scratch, os.path.join(mdir, f))
            rc, viol, detail, took, out = _run_check(scratch, prop)
            caught = rc == 1 and bool(viol)
            R.log("mutant %-34s %s: %s (%.0f s) %s" % (f[:-6], prop, "CAUGHT" if caught else "MISSED (exit %d)" % rc, took, detail[:1]))
            results.append({"mutant": f[:-6], "property": prop, "what": what, "exit": rc, "caught": caught, "classes": detail[:3]})
            if not caught:
                bad += 1
                if rc == 2:
                    R.log(out[-1500:])
    finally:
        _scratch_remove(scratch)
    json.dump({"at": time.strftime("%Y-%m-%dT%H:%M:%SZ", time.gmtime()), "results": results}, open(os.path.join(RECORD, "mutants.json"), "w"), indent=1)
    return 0 if bad == 0 else 2


def patch(args, R):
    tier = "quick"
    if "--tier" in args:
        i = args.index("--tier")
        tier = args[i + 1]
        args = args[:i] + args[i + 2:]
    keep = "--keep-build" in args
    args = [a for a in args if a != "--keep-build"]
    pfile, props = args[0], args[1:]
    scratch = _scratch_new()
    rcs = {}
    try:
        _apply(scratch, pfile)
        for prop in props:
            rc, viol, detail, took, out = _run_check(scratch, prop, tier)
            R.log("patch %s, check %s %s: exit %d (%.0f s) %s %s" % (os.path.basename(os.path.dirname(pfile)) + "/" + os.path.basename(pfile), prop, tier, rc, took, viol[:2], detail[:2]))
            if rc == 2:
                R.log(out[-2500:])
            rcs[prop] = rc
    finally:
        _scratch_remove(scratch, keep_build=keep)
    return 0 if all(v in (0, 1) for v in rcs.values()) else 2


def main(args, R):
    if not args:
        R.log(__doc__)
        return 2
    if args[0] == "determinism":
        return determinism(args[1:], R)
    if args[0] == "mutants":
        return mutants(args[1:], R)
    if args[0] == "patch":
        return patch(args[1:], R)
    raise R.HarnessError("unknown selfcheck %s" % args[0])
