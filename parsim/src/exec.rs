//! One simulated execution of an encoder entry point under the seeded
//! scheduler, and the observations the oracles use (public observables only).

use crate::rng::mix;
use crate::sched::{BatchDriver, BatchScheduler, Decider, Policy, SchedState};
use crate::simsource::SimSource;
use crate::workload::Workload;
use flacenc::bitsink::ByteSink;
use flacenc::component::{BitRepr, Stream};
use flacenc::error::EncodeError;
use flacenc::source::{Context, Fill, FrameBuf};
use flacenc::verif;
use serde::{Deserialize, Serialize};
use std::cell::RefCell;
use std::rc::Rc;
use std::sync::Arc;

#[derive(Serialize, Deserialize, Clone, Copy, Debug, PartialEq, Eq)]
pub enum Mode {
    /// `encode_with_fixed_block_size`, `multithread = false`
    Single,
    /// stream assembled by the harness through `encode_fixed_size_frame`
    Framewise,
    /// `encode_with_fixed_block_size`, `multithread = true`
    Par,
}

#[derive(Serialize, Deserialize, Clone, Debug, PartialEq, Eq)]
pub struct ErrInfo {
    pub kind: String,
    pub text: String,
}

#[derive(Clone, Debug)]
pub struct Outcome {
    pub result: Result<Vec<u8>, ErrInfo>,
    pub frames: usize,
    pub live_at_return: usize,
    pub live_states: Vec<(usize, verif::ThreadState)>,
    pub reads: usize,
    pub reads_after_error: usize,
    pub reported: usize,
    pub handed_md5: [u8; 16],
    pub handed_len: usize,
    pub fired: Vec<&'static str>,
    /// oversize probe fills the source tried / the library refused
    pub probes: (usize, usize),
}

pub struct Job {
    pub w: Workload,
    pub data: Arc<Vec<i32>>,
    pub mode: Mode,
}

/// Information about the execution in flight, for the panic hook.
pub struct InFlight {
    pub w: Workload,
    pub mode: Mode,
    pub policy: Policy,
    pub sched_seed: u64,
    pub sched: Rc<RefCell<SchedState>>,
    pub run_index: u64,
    pub sched_index: u64,
}

/// Mode of the execution in flight (0 none, 1 single-thread, 2 frame-wise, 3 multi-thread), for the watchdog.
pub static CUR_MODE: std::sync::atomic::AtomicU8 = std::sync::atomic::AtomicU8::new(0);

std::thread_local! {
    static JOB: RefCell<Option<Job>> = const { RefCell::new(None) };
    static OUT: RefCell<Option<Outcome>> = const { RefCell::new(None) };
    pub static INFLIGHT: RefCell<Option<InFlight>> = const { RefCell::new(None) };
}

pub fn err_info(e: &EncodeError) -> ErrInfo {
    match e {
        EncodeError::Source(s) => ErrInfo {
            kind: "Source".into(),
            text: format!("{s}"),
        },
        EncodeError::Config(v) => ErrInfo {
            kind: "Config".into(),
            text: format!("{} :: {}", v.path(), v),
        },
        _ => ErrInfo {
            kind: "Other".into(),
            text: format!("{e}"),
        },
    }
}

/// Bytes of `Stream::write`; a library that fails to serialise its own stream yields an error result
/// (compared like any other result), not a harness failure. The sink the stream is emitted through is a
/// dimension of the workload (the same for every mode of one workload): the byte sink, the library's 64-bit
/// word sink (exported word by word, big-endian, by the harness), or a user sink with the required methods
/// only that stores the bits it receives.
fn stream_bytes_via(stream: &Stream, sink_kind: u8) -> Result<Vec<u8>, ErrInfo> {
    let werr = |e: String| ErrInfo { kind: "Write".into(), text: e };
    match sink_kind {
        1 => {
            let mut sink = flacenc::bitsink::MemSink::<u64>::new();
            stream.write(&mut sink).map_err(|e| werr(format!("{e}")))?;
            let nbytes = (sink.len() + 7) / 8;
            let mut out = Vec::with_capacity(nbytes + 8);
            for wd in sink.as_slice() {
                out.extend_from_slice(&wd.to_be_bytes());
            }
            if out.len() < nbytes {
                return Err(werr(format!("word sink holds {} bytes of storage for {} bits", out.len(), sink.len())));
            }
            out.truncate(nbytes);
            Ok(out)
        }
        2 => {
            let mut sink = CollectSink { bits: 0, acc: 0, nacc: 0, out: vec![] };
            stream.write(&mut sink).map_err(|e| werr(format!("{e}")))?;
            if sink.nacc != 0 {
                return Err(werr(format!("stream is not a whole number of bytes ({} bits)", sink.bits)));
            }
            Ok(sink.out)
        }
        _ => {
            let mut sink = ByteSink::new();
            stream.write(&mut sink).map_err(|e| werr(format!("{e}")))?;
            Ok(sink.into_inner())
        }
    }
}

fn stream_bytes(stream: &Stream) -> Result<Vec<u8>, ErrInfo> {
    stream_bytes_via(stream, 0)
}

/// The judged emission. In workloads with observers the finished stream has a history of its own first: its
/// owner has counted and verified it, has already written it once through another kind of sink, and (for
/// half of the shapes) emits a frame-by-frame copy instead of the original. None of that may change the bytes: the object
/// the caller holds is the result, however often it is looked at, written or copied.
fn emit_judged(stream: &Stream, w: &Workload) -> Result<Vec<u8>, ErrInfo> {
    if w.observers && !w.synthetic_silence {
        std::hint::black_box((stream.count_bits(), flacenc::error::Verify::verify(stream).is_ok()));
        let _ = std::hint::black_box(stream_bytes_via(stream, (w.emit_sink + 1) % 3));
        if (w.block + w.channels) % 2 == 0 {
            // a copy made frame by frame (the type has no `Clone`), with the original's STREAMINFO
            let mut copy = Stream::with_stream_info(stream.stream_info().clone());
            for n in 0..stream.frame_count() {
                copy.add_frame(stream.frame(n).unwrap().clone());
            }
            *copy.stream_info_mut() = stream.stream_info().clone();
            return stream_bytes_via(&copy, w.emit_sink);
        }
    }
    stream_bytes_via(stream, w.emit_sink)
}

/// A user sink with the required methods only that keeps what it receives (MSB first).
struct CollectSink {
    bits: usize,
    acc: u64,
    nacc: u32,
    out: Vec<u8>,
}

impl CollectSink {
    fn push(&mut self, v: u64, n: usize) {
        for i in (0..n).rev() {
            self.acc = (self.acc << 1) | ((v >> i) & 1);
            self.nacc += 1;
            self.bits += 1;
            if self.nacc == 8 {
                self.out.push(self.acc as u8);
                self.acc = 0;
                self.nacc = 0;
            }
        }
    }
}

fn bits_to_u64<T: flacenc::bitsink::Bits>(v: T) -> (u64, usize) {
    (v.into(), std::mem::size_of::<T>() * 8)
}

impl flacenc::bitsink::BitSink for CollectSink {
    type Error = std::convert::Infallible;
    fn align_to_byte(&mut self) -> Result<usize, Self::Error> {
        let pad = (8 - self.nacc as usize % 8) % 8;
        self.push(0, pad);
        Ok(pad)
    }
    fn write_lsbs<T: flacenc::bitsink::Bits>(&mut self, val: T, n: usize) -> Result<(), Self::Error> {
        let (x, _) = bits_to_u64(val);
        self.push(x, n);
        Ok(())
    }
    fn write_msbs<T: flacenc::bitsink::Bits>(&mut self, val: T, n: usize) -> Result<(), Self::Error> {
        let (x, w) = bits_to_u64(val);
        if n > 0 {
            self.push(x >> (w - n), n);
        }
        Ok(())
    }
    fn write<T: flacenc::bitsink::Bits>(&mut self, val: T) -> Result<(), Self::Error> {
        let (x, w) = bits_to_u64(val);
        self.push(x, w);
        Ok(())
    }
}

/// A user sink with the required methods only that fails from its `fail_at`-th operation on.
struct FailSink {
    ops: usize,
    fail_at: usize,
}

impl FailSink {
    fn gate(&mut self) -> Result<(), std::io::Error> {
        self.ops += 1;
        if self.ops > self.fail_at {
            Err(std::io::Error::new(std::io::ErrorKind::Other, "simulated sink failure"))
        } else {
            Ok(())
        }
    }
}

impl flacenc::bitsink::BitSink for FailSink {
    type Error = std::io::Error;
    fn align_to_byte(&mut self) -> Result<usize, Self::Error> {
        self.gate().map(|()| 0)
    }
    fn write_lsbs<T: flacenc::bitsink::Bits>(&mut self, _val: T, _n: usize) -> Result<(), Self::Error> {
        self.gate()
    }
    fn write_msbs<T: flacenc::bitsink::Bits>(&mut self, _val: T, _n: usize) -> Result<(), Self::Error> {
        self.gate()
    }
    fn write<T: flacenc::bitsink::Bits>(&mut self, _val: T) -> Result<(), Self::Error> {
        self.gate()
    }
}

fn framewise(w: &Workload, src: &mut SimSource) -> Result<Stream, EncodeError> {
    use flacenc::source::Source;
    let cfg = w.cfg.build(false, None, w.config_block());
    let mut stream = Stream::new(w.rate, w.channels, w.bits)?;
    stream
        .stream_info_mut()
        .set_block_sizes(w.block, w.block)
        .map_err(EncodeError::Config)?;
    let mut fb_ctx = (FrameBuf::with_size(w.channels, w.block)?, Context::new(w.bits, w.channels));
    let mut n = 0usize;
    loop {
        let got = src.read_samples(w.block, &mut fb_ctx)?;
        if got == 0 {
            break;
        }
        let frame = flacenc::encode_fixed_size_frame(&cfg, &fb_ctx.0, n, stream.stream_info())?;
        stream.add_frame(frame);
        n += 1;
        // a caller that looks at its objects while it works (a progress line, a debug log): reading the
        // context, the buffer or the stream between two blocks must not change anything
        if w.observers {
            let ctx = &fb_ctx.1;
            let seen = format!("{:?} {:?} {} {:?}", ctx.md5_digest(), ctx.current_frame_number(), ctx.total_samples(), ctx);
            let fb = &fb_ctx.0;
            std::hint::black_box((seen, fb.filled_size(), fb.size(), fb.channels(), stream.frame_count(), stream.stream_info().max_frame_size()));
            if n % 2 == 1 {
                let _ = std::hint::black_box(stream.frame(n - 1).map(|f| (f.count_bits(), f.block_size())));
                let _ = std::hint::black_box(stream.stream_info().clone());
            }
            // ... and that writes what it has so far (a progressive writer, a size estimate): a stream that is
            // written, counted or verified while it still grows must end up the same
            if n.is_power_of_two() && n <= 64 {
                let mut scratch = ByteSink::new();
                let _ = std::hint::black_box(stream.write(&mut scratch).is_ok());
                std::hint::black_box((scratch.into_inner().len(), stream.count_bits(), flacenc::error::Verify::verify(&stream).is_ok()));
            }
        }
    }
    let (_, ctx) = fb_ctx;
    stream.stream_info_mut().set_md5_digest(&ctx.md5_digest());
    // the assembler states what it consumed (a length hint is advisory)
    stream.stream_info_mut().set_total_samples(ctx.total_samples());
    Ok(stream)
}

fn body() {
    let (w, data, mode) = JOB.with(|j| {
        let j = j.borrow();
        let j = j.as_ref().expect("HARNESS: no job");
        (j.w.clone(), Arc::clone(&j.data), j.mode)
    });
    let mut src = SimSource::with_data(&w, (*data).clone());
    if w.pre_reads > 0 {
        src.pre_read(w.pre_reads, w.block);
    }
    let mut mode = mode;
    // Two encoders alive at the same time: a second caller thread of the same process runs another
    // (possibly failing) encode concurrently with the observed one; it must not influence it.
    let mut other_caller = None;
    if let (Mode::Par, Some(pre)) = (mode, w.pre.as_deref()) {
        if pre.concurrent {
            let pw = pre.w.clone();
            let ppar = pre.par;
            other_caller = Some(shuttle::thread::spawn(move || {
                let mut psrc = SimSource::new(&pw);
                let pcfg = pw.cfg.build(ppar, pw.workers, pw.config_block());
                if let Ok(st) = flacenc::encode_with_fixed_block_size(&pcfg, &mut psrc, pw.block) {
                    let _ = stream_bytes(&st);
                }
            }));
        }
    }
    if let (Mode::Par, Some(pre)) = (mode, w.pre.as_deref().filter(|p| !p.concurrent)) {
        // (C10, multi-thread slice) an earlier call on the same simulated main thread; its result is discarded
        let mut psrc = SimSource::new(&pre.w);
        let pcfg = pre.w.cfg.build(pre.par, pre.w.workers, pre.w.config_block());
        if let Ok(st) = flacenc::encode_with_fixed_block_size(&pcfg, &mut psrc, pre.w.block) {
            let _ = stream_bytes(&st);
            if let Some(pm) = pre.failed_write {
                // ... and a write of it that fails half-way (a full disk, a closed pipe) on this thread
                let mut counting = FailSink { ops: 0, fail_at: usize::MAX };
                let _ = st.write(&mut counting);
                let mut failing = FailSink {
                    ops: 0,
                    fail_at: counting.ops * pm as usize / 1000,
                };
                let _ = st.write(&mut failing);
            }
        }
        if pre.last_single {
            mode = Mode::Single;
        }
    }
    // (C17, multi-thread slice) the block size the entry point is called with may be a scripted invalid one
    let bad_block = w.faults.iter().find_map(|f| match f {
        crate::workload::Fault::BadBlockSize { block } => Some(usize::try_from(*block).unwrap_or(usize::MAX)),
        _ => None,
    });
    let call_block = bad_block.unwrap_or(w.block);
    let res = match mode {
        Mode::Single => {
            let cfg = w.cfg.build(false, w.workers, w.config_block());
            flacenc::encode_with_fixed_block_size(&cfg, &mut src, call_block)
        }
        Mode::Par => {
            let cfg = w.cfg.build(true, w.workers, w.config_block());
            flacenc::encode_with_fixed_block_size(&cfg, &mut src, call_block)
        }
        Mode::Framewise => framewise(&w, &mut src),
    };
    // the instant the call has returned (with a second encoder alive the process-wide thread counter cannot
    // be attributed to this call; the end-of-execution leak check still applies)
    let concurrent = other_caller.is_some();
    let live_at_return = if concurrent { 0 } else { verif::live_threads() };
    let live_states = if concurrent { vec![] } else { verif::live_thread_states() };
    if let Some(h) = other_caller {
        let _ = h.join();
    }
    let (result, frames) = match &res {
        Ok(stream) => (emit_judged(stream, &w), stream.frame_count()),
        Err(e) => (Err(err_info(e)), 0),
    };
    drop(res);
    let handed_md5: [u8; 16] = src.handed_md5();
    let out = Outcome {
        result,
        frames,
        live_at_return,
        live_states,
        reads: src.reads,
        reads_after_error: src.reads_after_error,
        reported: src.reported,
        handed_md5,
        handed_len: src.handed_len,
        probes: (src.probes_tried, src.probes_refused),
        fired: {
            let mut f = src.fired.clone();
            if bad_block.is_some() {
                f.push("bad_block_size");
            }
            f
        },
    };
    OUT.with(|o| *o.borrow_mut() = Some(out));
}

pub struct ExecResult {
    pub outcome: Outcome,
    pub record: verif::ExecRecord,
    pub choices: Vec<u32>,
    pub devs: Vec<(u32, u32)>,
    pub sched_hash: u64,
    pub diverged: Option<usize>,
    pub max_runnable: usize,
    pub switches: usize,
}

pub fn step_budget(w: &Workload) -> usize {
    let reads = w.nfull + 2 + if w.short_reads { w.nfull } else { 0 };
    let workers = w.workers.unwrap_or(16);
    20_000 + 2_000 * (reads + workers)
}

fn set_env(w: &Workload) {
    match &w.env_workers {
        Some(v) => std::env::set_var("FLACENC_WORKERS", v),
        None => std::env::remove_var("FLACENC_WORKERS"),
    }
}

/// What to run in one execution of a batch.
#[derive(Clone, Debug)]
pub struct ExecPlan {
    pub mode: Mode,
    pub policy: Policy,
    pub sched_seed: u64,
    pub replay: Vec<u32>,
    pub sched_index: u64,
}

struct Driver {
    w: Workload,
    data: Arc<Vec<i32>>,
    plans: Vec<ExecPlan>,
    next: usize,
    run_index: u64,
    keep_events: bool,
    cur_state: Option<Rc<RefCell<SchedState>>>,
    results: Rc<RefCell<Vec<ExecResult>>>,
}

impl Driver {
    fn finalize_previous(&mut self) {
        let Some(state) = self.cur_state.take() else {
            return;
        };
        let record = verif::take_record();
        let outcome = OUT
            .with(|o| o.borrow_mut().take())
            .expect("HARNESS: execution produced no outcome");
        INFLIGHT.with(|c| *c.borrow_mut() = None);
        let st = state.borrow();
        self.results.borrow_mut().push(ExecResult {
            outcome,
            record,
            choices: st.choices.clone(),
            devs: st.devs.clone(),
            sched_hash: mix(st.hash, st.choices.len() as u64),
            diverged: st.diverged,
            max_runnable: st.max_runnable,
            switches: st.switches,
        });
    }
}

impl BatchDriver for Driver {
    fn next_execution(&mut self) -> Option<Decider> {
        self.finalize_previous();
        let plan = self.plans.get(self.next)?.clone();
        self.next += 1;
        JOB.with(|j| {
            *j.borrow_mut() = Some(Job {
                w: self.w.clone(),
                data: Arc::clone(&self.data),
                mode: plan.mode,
            });
        });
        OUT.with(|o| *o.borrow_mut() = None);
        CUR_MODE.store(
            match plan.mode {
                Mode::Single => 1,
                Mode::Framewise => 2,
                Mode::Par => 3,
            },
            std::sync::atomic::Ordering::SeqCst,
        );
        crate::rng::tick();
        let dec = Decider::new(plan.policy.clone(), plan.sched_seed, plan.replay.clone());
        let state = Rc::clone(&dec.state);
        INFLIGHT.with(|c| {
            *c.borrow_mut() = Some(InFlight {
                w: self.w.clone(),
                mode: plan.mode,
                policy: plan.policy.clone(),
                sched_seed: plan.sched_seed,
                sched: Rc::clone(&state),
                run_index: self.run_index,
                sched_index: plan.sched_index,
            });
        });
        self.cur_state = Some(state);
        verif::begin_execution(verif::Knobs {
            hashq_cap: Some(self.w.hashq_cap),
            keep_events: self.keep_events,
        });
        Some(dec)
    }
}

/// Runs all `plans` for workload `w` inside one shuttle runner and returns one result per plan.
pub fn execute_batch(w: &Workload, data: &Arc<Vec<i32>>, plans: Vec<ExecPlan>, run_index: u64, keep_events: bool) -> Vec<ExecResult> {
    set_env(w);
    let results = Rc::new(RefCell::new(Vec::with_capacity(plans.len())));
    let driver = Driver {
        w: w.clone(),
        data: Arc::clone(data),
        plans,
        next: 0,
        run_index,
        keep_events,
        cur_state: None,
        results: Rc::clone(&results),
    };
    let mut cfg = shuttle::Config::new();
    cfg.stack_size = 1 << 19;
    cfg.failure_persistence = shuttle::FailurePersistence::None;
    cfg.max_steps = shuttle::MaxSteps::FailAfter(step_budget(w));
    cfg.silence_warnings = true;
    let runner = shuttle::Runner::new(BatchScheduler::new(driver), cfg);
    runner.run(body);
    let out = std::mem::take(&mut *results.borrow_mut());
    out
}

/// STREAMINFO fields read straight from the emitted bytes (independent of the library's accessors).
#[derive(Debug, Clone, PartialEq, Eq, Serialize, Deserialize)]
pub struct StreamInfoFacts {
    pub min_block: u32,
    pub max_block: u32,
    pub min_frame: u32,
    pub max_frame: u32,
    pub rate: u32,
    pub channels: u32,
    pub bits: u32,
    pub total: u64,
    pub md5: [u8; 16],
}

pub fn parse_streaminfo(b: &[u8]) -> Option<StreamInfoFacts> {
    if b.len() < 42 || &b[0..4] != b"fLaC" || (b[4] & 0x7F) != 0 {
        return None;
    }
    let len = (u32::from(b[5]) << 16) | (u32::from(b[6]) << 8) | u32::from(b[7]);
    if len != 34 {
        return None;
    }
    let s = &b[8..42];
    let be = |x: &[u8]| x.iter().fold(0u64, |a, v| (a << 8) | u64::from(*v));
    let packed = be(&s[10..18]);
    let mut md5 = [0u8; 16];
    md5.copy_from_slice(&s[18..34]);
    Some(StreamInfoFacts {
        min_block: be(&s[0..2]) as u32,
        max_block: be(&s[2..4]) as u32,
        min_frame: be(&s[4..7]) as u32,
        max_frame: be(&s[7..10]) as u32,
        rate: (packed >> 44) as u32,
        channels: ((packed >> 41) & 7) as u32 + 1,
        bits: ((packed >> 36) & 31) as u32 + 1,
        total: packed & ((1u64 << 36) - 1),
        md5,
    })
}

/// Marker so that `Fill` stays imported for the generic code above.
#[allow(dead_code)]
fn _assert_fill<T: Fill>() {}
