//! Conformance of the channel model (`flacenc::verif::chan`, the stub that stands in for
//! crossbeam-channel under the simulator) with the real crossbeam-channel, operation by operation,
//! on seeded sequential operation sequences: FIFO order, capacity, `len`/`is_empty`/`is_full`,
//! disconnection rules of `send`/`try_send`/`recv`/`try_recv` when the last sender / receiver is dropped.
//! Blocking operations are only issued when they cannot block (the sequences are sequential).

use crate::rng::{mix, Rng};
use flacenc::verif::chan as model;

fn one_sequence(seed: u64) -> Result<usize, String> {
    let mut r = Rng::new(seed);
    // capacity 0 = rendezvous channel: sequentially only its non-blocking face can be compared
    let cap = if r.chance(0.2) { None } else if r.chance(0.15) { Some(0) } else { Some(1 + r.below(5)) };
    let (ms, mr) = match cap {
        Some(c) => model::bounded::<u32>(c),
        None => model::unbounded::<u32>(),
    };
    let (rs, rr) = match cap {
        Some(c) => crossbeam_channel::bounded::<u32>(c),
        None => crossbeam_channel::unbounded::<u32>(),
    };
    let mut msend = vec![ms];
    let mut mrecv = vec![mr];
    let mut rsend = vec![rs];
    let mut rrecv = vec![rr];
    let nops = 5 + r.below(60);
    let mut next = 0u32;
    let mut done = 0usize;
    for i in 0..nops {
        let op = r.below(14);
        let (a, b): (String, String) = match op {
            0..=3 if !msend.is_empty() => {
                next += 1;
                let k = r.below(msend.len());
                (
                    format!("{:?}", msend[k].try_send(next).map_err(|e| (e.is_full(), e.is_disconnected()))),
                    format!("{:?}", rsend[k].try_send(next).map_err(|e| (e.is_full(), e.is_disconnected()))),
                )
            }
            4..=6 if !mrecv.is_empty() => {
                let k = r.below(mrecv.len());
                (
                    format!("{:?}", mrecv[k].try_recv().map_err(|e| e == model::TryRecvError::Disconnected)),
                    format!("{:?}", rrecv[k].try_recv().map_err(|e| e.is_disconnected())),
                )
            }
            // (after the last receiver is gone the queue contents are unobservable and crossbeam's `len` is
            // not meaningful; the library never asks then)
            7 if !msend.is_empty() && !mrecv.is_empty() => {
                let k = r.below(msend.len());
                (
                    format!("{} {} {} {:?}", msend[k].len(), msend[k].is_empty(), msend[k].is_full(), msend[k].capacity()),
                    format!("{} {} {} {:?}", rsend[k].len(), rsend[k].is_empty(), rsend[k].is_full(), rsend[k].capacity()),
                )
            }
            8 if !mrecv.is_empty() => {
                let k = r.below(mrecv.len());
                (
                    format!("{} {} {} {:?}", mrecv[k].len(), mrecv[k].is_empty(), mrecv[k].is_full(), mrecv[k].capacity()),
                    format!("{} {} {} {:?}", rrecv[k].len(), rrecv[k].is_empty(), rrecv[k].is_full(), rrecv[k].capacity()),
                )
            }
            9 if !msend.is_empty() && msend.len() < 3 => {
                let k = r.below(msend.len());
                let (c1, c2) = (msend[k].clone(), rsend[k].clone());
                msend.push(c1);
                rsend.push(c2);
                ("clone".into(), "clone".into())
            }
            10 if !msend.is_empty() => {
                let k = r.below(msend.len());
                drop(msend.remove(k));
                drop(rsend.remove(k));
                ("drop_sender".into(), "drop_sender".into())
            }
            11 if !mrecv.is_empty() && r.chance(0.4) => {
                let k = r.below(mrecv.len());
                if mrecv.len() < 2 && r.chance(0.5) {
                    let (c1, c2) = (mrecv[k].clone(), rrecv[k].clone());
                    mrecv.push(c1);
                    rrecv.push(c2);
                    ("clone_receiver".into(), "clone_receiver".into())
                } else {
                    drop(mrecv.remove(k));
                    drop(rrecv.remove(k));
                    ("drop_receiver".into(), "drop_receiver".into())
                }
            }
            12 if !msend.is_empty() && ((cap != Some(0) && !msend[0].is_full()) || mrecv.is_empty()) => {
                // blocking send that cannot block: the queue has room, or every receiver is gone
                next += 1;
                (
                    format!("{:?}", msend[0].send(next).map_err(|e| e.into_inner())),
                    format!("{:?}", rsend[0].send(next).map_err(|e| e.into_inner())),
                )
            }
            13 if !mrecv.is_empty() && (!mrecv[0].is_empty() || msend.is_empty()) => {
                // blocking receive that cannot block: a message is queued, or every sender is gone
                (format!("{:?}", mrecv[0].recv().ok()), format!("{:?}", rrecv[0].recv().ok()))
            }
            _ => {
                if mrecv.is_empty() {
                    continue;
                }
                let a: Vec<u32> = mrecv[0].try_iter().collect();
                let b: Vec<u32> = rrecv[0].try_iter().collect();
                (format!("{a:?}"), format!("{b:?}"))
            }
        };
        done += 1;
        if a != b {
            return Err(format!("sequence seed {seed}, capacity {cap:?}, op #{i} (kind {op}): model {a} vs crossbeam {b}"));
        }
    }
    Ok(done)
}

/// Runs `count` sequences inside one single-task simulated execution; returns (sequences, operations).
pub fn run(seed: u64, count: u64) -> Result<(u64, u64), String> {
    let out = std::sync::Arc::new(std::sync::Mutex::new(Ok((0u64, 0u64))));
    let o2 = std::sync::Arc::clone(&out);
    let mut cfg = shuttle::Config::new();
    cfg.failure_persistence = shuttle::FailurePersistence::None;
    cfg.max_steps = shuttle::MaxSteps::None;
    cfg.silence_warnings = true;
    let runner = shuttle::Runner::new(shuttle::scheduler::RandomScheduler::new_from_seed(seed, 1), cfg);
    runner.run(move || {
        flacenc::verif::begin_execution(flacenc::verif::Knobs {
            hashq_cap: None,
            keep_events: false,
        });
        let mut ops = 0u64;
        let mut res = Ok((count, 0u64));
        for i in 0..count {
            match one_sequence(mix(seed, 0xC4A2_0000 + i)) {
                Ok(n) => ops += n as u64,
                Err(e) => {
                    res = Err(e);
                    break;
                }
            }
        }
        if let Ok(r) = &mut res {
            r.1 = ops;
        }
        *o2.lock().unwrap() = res;
        let _ = flacenc::verif::take_record();
    });
    let r = out.lock().unwrap().clone();
    r
}
