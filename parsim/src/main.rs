#![recursion_limit = "512"]
//! parsim — deterministic simulation of flacenc's multi-thread encoder.
//!
//! `parsim run  ...` explores workloads x schedules for one property and writes a coverage summary;
//! `parsim exec ...` re-executes one replay file (exactly, or searching schedules for it).
//! Exit codes: 0 = nothing found, 3 = violation candidate written, 2 = harness error.

#[path = "../../common/logger.rs"]
mod logger;
#[path = "../../common/rng.rs"]
mod rng;
#[path = "../../common/simsource.rs"]
mod simsource;
#[path = "../../common/workload.rs"]
mod workload;

mod chanconf;
mod exec;
mod sched;

use exec::{execute_batch, parse_streaminfo, ErrInfo, ExecPlan, ExecResult, Mode, INFLIGHT};
use rng::{fnv, mix, Rng};
use sched::{random_policy, Policy};
use serde::{Deserialize, Serialize};
use serde_json::json;
use std::collections::{BTreeMap, BTreeSet};
use std::sync::Arc;
use workload::{gen, Fault, Purpose, Tier, Workload};

#[derive(Serialize, Deserialize, Clone, Debug)]
struct Observed {
    class: String,
    site: String,
    message: String,
    detail: String,
}

#[derive(Serialize, Deserialize, Clone, Debug)]
struct ScheduleSpec {
    policy: Policy,
    seed: u64,
    #[serde(default)]
    choices: Vec<u32>,
    /// the same schedule as deviations from the default policy (for minimisation)
    #[serde(default)]
    deviations: Vec<(u32, u32)>,
}

#[derive(Serialize, Deserialize, Clone, Debug)]
struct ReplayFile {
    property: String,
    engine: String,
    verif_seed: u64,
    run_index: u64,
    sched_index: u64,
    tier: String,
    mode: Mode,
    workload: Workload,
    schedule: ScheduleSpec,
    observed: Option<Observed>,
    #[serde(default)]
    minimised: bool,
    #[serde(default)]
    notes: Vec<String>,
    /// a `log` logger that formats every record was installed in the process that found this
    #[serde(default)]
    logger: bool,
}

struct Ctx {
    prop: String,
    seed: u64,
    tier: String,
    replay_out: String,
}

static LOGGER_ON: std::sync::atomic::AtomicBool = std::sync::atomic::AtomicBool::new(false);

/// What the watchdog needs to know about the workload in flight (set once per workload).
static CUR_WORKLOAD: std::sync::Mutex<Option<(Workload, u64, Ctx)>> = std::sync::Mutex::new(None);

/// Wall-clock watchdog. The simulator owns every scheduling decision, but code that loops without ever
/// reaching a scheduling point or a source read is outside its control: after `limit_s` seconds without a
/// tick the process ends. In a single-thread or frame-wise execution (one task, nothing to wait for) such a
/// loop is the library's own endless loop: it is reported as a violation (class `hang`) with a replay
/// file. In a multi-thread execution it may equally be a spin-wait on another thread, which real threads
/// would satisfy and this simulator cannot schedule: that is a harness error (exit 2), never a verdict.
fn start_watchdog(limit_s: u64) {
    let _ = std::thread::Builder::new().name("watchdog".into()).spawn(move || {
        use std::sync::atomic::Ordering;
        let mut last = rng::TICKS.load(Ordering::Relaxed);
        let mut since = std::time::Instant::now();
        loop {
            std::thread::sleep(std::time::Duration::from_millis(500));
            let now = rng::TICKS.load(Ordering::Relaxed);
            if now != last {
                last = now;
                since = std::time::Instant::now();
                continue;
            }
            if since.elapsed().as_secs() < limit_s {
                continue;
            }
            let mode = exec::CUR_MODE.load(Ordering::SeqCst);
            let cur = CUR_WORKLOAD.lock().ok().and_then(|g| g.as_ref().map(|(w, i, c)| (w.clone(), *i, Ctx { prop: c.prop.clone(), seed: c.seed, tier: c.tier.clone(), replay_out: c.replay_out.clone() })));
            use std::io::Write;
            if let (1 | 2, Some((w, run_index, ctx))) = (mode, cur) {
                let m = if mode == 1 { Mode::Single } else { Mode::Framewise };
                let detail = format!("{} execution made no progress (no source read) for {limit_s} s: the call does not return", if mode == 1 { "single-thread" } else { "frame-wise" });
                let rf = ReplayFile {
                    property: ctx.prop,
                    engine: if cfg!(feature = "experimental") { "parsim-exp".into() } else if cfg!(debug_assertions) { "parsim-checked".into() } else { "parsim".into() },
                    verif_seed: ctx.seed,
                    run_index,
                    sched_index: u64::MAX,
                    tier: ctx.tier,
                    mode: m,
                    workload: w,
                    schedule: ScheduleSpec { policy: Policy::Uniform, seed: 0, choices: vec![], deviations: vec![] },
                    observed: Some(Observed { class: "hang".into(), site: if mode == 1 { "single-thread".into() } else { "frame-wise".into() }, message: String::new(), detail: detail.clone() }),
                    minimised: false,
                    notes: vec![],
                    logger: LOGGER_ON.load(Ordering::Relaxed),
                };
                let path = ctx.replay_out.replace("{i}", &run_index.to_string()).replace("{s}", "hang");
                if let Some(dir) = std::path::Path::new(&path).parent() {
                    let _ = std::fs::create_dir_all(dir);
                }
                if std::fs::write(&path, serde_json::to_string_pretty(&rf).unwrap()).is_ok() {
                    println!("CANDIDATE {path}");
                    println!("RESULT {}", json!({"violation": true, "class": "hang", "site": if mode == 1 { "single-thread" } else { "frame-wise" }, "message": "", "detail": detail}));
                    let _ = std::io::stdout().flush();
                    std::process::exit(3);
                }
            }
            let msg = format!("no scheduling decision or source read for {limit_s} s in a multi-thread execution (a loop without a scheduling point: possibly a spin-wait the simulator cannot schedule); not a verdict");
            eprintln!("HARNESS-ERROR: {msg}");
            println!("RESULT {}", json!({"harness_error": msg}));
            let _ = std::io::stdout().flush();
            std::process::exit(2);
        }
    });
}

std::thread_local! {
    static CTX: std::cell::RefCell<Option<Ctx>> = const { std::cell::RefCell::new(None) };
}

fn norm_msg(m: &str) -> String {
    // message head with digits collapsed, so that a signature survives changes of counts / line numbers
    let mut out = String::new();
    let mut last_digit = false;
    for c in m.chars().take(160) {
        if c.is_ascii_digit() {
            if !last_digit {
                out.push('#');
            }
            last_digit = true;
        } else {
            last_digit = false;
            out.push(if c == '\n' { ' ' } else { c });
        }
    }
    out
}

fn write_replay_and_exit(
    w: &Workload,
    mode: Mode,
    policy: &Policy,
    sched_seed: u64,
    (choices, deviations): (Vec<u32>, Vec<(u32, u32)>),
    run_index: u64,
    sched_index: u64,
    obs: Observed,
) -> ! {
    let (prop, seed, tier, path) = CTX.with(|c| {
        let c = c.borrow();
        let c = c.as_ref().expect("ctx");
        (c.prop.clone(), c.seed, c.tier.clone(), c.replay_out.clone())
    });
    let rf = ReplayFile {
        property: prop,
        engine: if cfg!(feature = "experimental") {
            "parsim-exp".into()
        } else if cfg!(debug_assertions) {
            "parsim-checked".into()
        } else {
            "parsim".into()
        },
        verif_seed: seed,
        run_index,
        sched_index,
        tier,
        mode,
        workload: w.clone(),
        schedule: ScheduleSpec {
            policy: policy.clone(),
            seed: sched_seed,
            choices,
            deviations,
        },
        observed: Some(obs.clone()),
        minimised: false,
        notes: vec![],
        logger: LOGGER_ON.load(std::sync::atomic::Ordering::Relaxed),
    };
    let path = path
        .replace("{i}", &run_index.to_string())
        .replace("{s}", &sched_index.to_string());
    if let Some(dir) = std::path::Path::new(&path).parent() {
        let _ = std::fs::create_dir_all(dir);
    }
    std::fs::write(&path, serde_json::to_string_pretty(&rf).unwrap()).expect("write replay");
    println!("CANDIDATE {path}");
    println!(
        "RESULT {}",
        json!({"violation": true, "class": obs.class, "site": obs.site, "message": norm_msg(&obs.message), "detail": obs.detail})
    );
    use std::io::Write;
    let _ = std::io::stdout().flush();
    std::process::exit(3);
}

fn violation(res_ctx: (&Workload, Mode, &Policy, u64, &ExecResult, u64, u64), class: &str, detail: String) -> ! {
    let (w, mode, policy, seed, r, i, s) = res_ctx;
    write_replay_and_exit(
        w,
        mode,
        policy,
        seed,
        (r.choices.clone(), r.devs.clone()),
        i,
        s,
        Observed {
            class: class.into(),
            site: String::new(),
            message: String::new(),
            detail,
        },
    )
}

fn harness_error(msg: &str) -> ! {
    eprintln!("HARNESS-ERROR: {msg}");
    println!("RESULT {}", json!({"harness_error": msg}));
    std::process::exit(2);
}

fn install_hook() {
    // make shuttle install (once) its own hook first, then replace it.
    shuttle::check_random(|| {}, 1);
    std::panic::set_hook(Box::new(|info| {
        let msg = if let Some(s) = info.payload().downcast_ref::<&str>() {
            (*s).to_owned()
        } else if let Some(s) = info.payload().downcast_ref::<String>() {
            s.clone()
        } else {
            "<non-string panic payload>".to_owned()
        };
        let loc = info
            .location()
            .map_or_else(|| "<unknown>".to_owned(), |l| format!("{}:{}", l.file(), l.line()));
        let file = info.location().map_or("", |l| l.file()).to_owned();
        let inflight = INFLIGHT.with(|c| c.try_borrow_mut().ok().and_then(|mut c| c.take()));
        let Some(inf) = inflight else {
            eprintln!("HARNESS-ERROR: panic outside an execution at {loc}: {msg}");
            println!("RESULT {}", json!({"harness_error": format!("panic outside execution at {loc}: {msg}")}));
            std::process::exit(2);
        };
        let rec = flacenc::verif::snapshot_record();
        let is_engine = file.contains("shuttle-engine") || file.contains("shuttle-std") || file.contains("shuttle-0.");
        let (class, site) = if msg.starts_with("deadlock!") {
            ("deadlock".to_owned(), String::new())
        } else if msg.starts_with("exceeded max_steps") {
            ("no_progress".to_owned(), String::new())
        } else if msg.contains("VERIF-UNSUPPORTED") || msg.contains("HARNESS") || is_engine || file.contains("/verif/") {
            eprintln!("HARNESS-ERROR: {msg} at {loc}");
            println!("RESULT {}", json!({"harness_error": format!("{msg} at {loc}")}));
            std::process::exit(2);
        } else {
            let short = file.rsplit("/repo/").next().unwrap_or(&file).to_owned();
            ("panic".to_owned(), short)
        };
        let mut detail = format!("at {loc}");
        if let Some(rec) = &rec {
            let blocked: Vec<String> = rec
                .threads
                .iter()
                .filter(|(_, s)| **s != flacenc::verif::ThreadState::Finished)
                .map(|(t, s)| format!("t{t}:{s:?}"))
                .collect();
            detail.push_str(&format!("; threads [{}]; chan_lens {:?}", blocked.join(","), rec.chan_lens));
        }
        let (site, detail) = if class == "deadlock" || class == "no_progress" {
            // signature of a hang: the multiset of blocked states (channel ids are creation-ordered)
            let mut sig: Vec<String> = rec
                .as_ref()
                .map(|r| {
                    r.threads
                        .iter()
                        .filter(|(_, s)| **s != flacenc::verif::ThreadState::Finished)
                        .map(|(t, s)| if *t == 0 { format!("main:{s:?}") } else { format!("{s:?}") })
                        .collect()
                })
                .unwrap_or_default();
            sig.sort();
            sig.dedup();
            (sig.join("+"), detail)
        } else {
            (site, detail)
        };
        let choices = inf
            .sched
            .try_borrow()
            .map(|s| (s.choices.clone(), s.devs.clone()))
            .unwrap_or_default();
        write_replay_and_exit(
            &inf.w,
            inf.mode,
            &inf.policy,
            inf.sched_seed,
            choices,
            inf.run_index,
            inf.sched_index,
            Observed {
                class,
                site,
                message: msg,
                detail,
            },
        );
    }));
}

#[derive(Default)]
struct Cov {
    workloads: u64,
    executions: u64,
    par_executions: u64,
    nontrivial: u64,
    distinct: BTreeSet<u64>,
    distinct_nontrivial: BTreeSet<u64>,
    completion_orders: BTreeSet<u64>,
    out_of_order_runs: u64,
    blocking_runs: u64,
    steps: u64,
    events: u64,
    states: BTreeSet<u64>,
    transitions: BTreeSet<(u64, u64)>,
    chan_max_len: Vec<usize>,
    blocking_sends: Vec<u64>,
    blocking_recvs: Vec<u64>,
    hashq_full_runs: u64,
    policies: BTreeMap<String, u64>,
    ooo_by_policy: BTreeMap<String, u64>,
    faults_fired: BTreeMap<String, u64>,
    fault_free_runs: u64,
    order_divergent: u64,
    err_results: u64,
    ok_results: u64,
    max_tasks: usize,
    workers_hist: BTreeMap<String, u64>,
    delivery_hist: BTreeMap<String, u64>,
    bits_hist: BTreeMap<String, u64>,
    max_hash_lag: usize,
    samples: Vec<serde_json::Value>,
    digests: Vec<String>,
    skipped_single_err: u64,
    budget_max_ratio: f64,
    slowest: Vec<(u64, u64)>,
    skipped_oversize_output: u64,
}

fn policy_name(p: &Policy) -> &'static str {
    match p {
        Policy::Uniform => "uniform",
        Policy::Sticky { .. } => "sticky",
        Policy::Pct { .. } => "pct",
        Policy::Starve { .. } => "starve",
        Policy::RoundRobin => "round_robin",
        Policy::Stall { .. } => "stall",
        Policy::Ahead { .. } => "ahead",
        Policy::Deviations { .. } => "deviations",
        Policy::Replay => "replay",
    }
}

impl Cov {
    fn absorb(&mut self, w: &Workload, whash: u64, policy: &Policy, r: &ExecResult, mode: Mode) {
        self.executions += 1;
        self.steps += r.choices.len() as u64;
        self.events += r.record.n_events;
        let ratio = r.choices.len() as f64 / exec::step_budget(w) as f64;
        if ratio > self.budget_max_ratio {
            self.budget_max_ratio = ratio;
        }
        if mode != Mode::Par {
            return;
        }
        self.par_executions += 1;
        *self.policies.entry(policy_name(policy).into()).or_default() += 1;
        let done: Vec<u64> = r
            .record
            .probes
            .iter()
            .filter(|(t, _)| *t == "frame_done")
            .map(|(_, v)| *v)
            .collect();
        let ooo = done.windows(2).any(|p| p[0] > p[1]);
        let blocking = r.record.blocking_sends.iter().chain(r.record.blocking_recvs.iter()).any(|c| *c > 0);
        let mut oh = 0u64;
        for d in &done {
            oh = mix(oh, *d + 1);
        }
        self.completion_orders.insert(mix(oh, done.len() as u64));
        if ooo {
            self.out_of_order_runs += 1;
            *self.ooo_by_policy.entry(policy_name(policy).into()).or_default() += 1;
        }
        if blocking {
            self.blocking_runs += 1;
        }
        let key = mix(whash, r.sched_hash);
        self.distinct.insert(key);
        if ooo || blocking {
            self.nontrivial += 1;
            self.distinct_nontrivial.insert(key);
        }
        for s in &r.record.states {
            self.states.insert(*s);
        }
        for t in &r.record.transitions {
            self.transitions.insert(*t);
        }
        for (i, l) in r.record.chan_max_len.iter().enumerate() {
            if self.chan_max_len.len() <= i {
                self.chan_max_len.resize(i + 1, 0);
                self.blocking_sends.resize(i + 1, 0);
                self.blocking_recvs.resize(i + 1, 0);
            }
            self.chan_max_len[i] = self.chan_max_len[i].max(*l);
            self.blocking_sends[i] += r.record.blocking_sends[i];
            self.blocking_recvs[i] += r.record.blocking_recvs[i];
        }
        if r.record.blocking_sends.get(2).copied().unwrap_or(0) > 0 {
            self.hashq_full_runs += 1;
        }
        if let Some(l) = r.record.chan_max_len.get(2) {
            self.max_hash_lag = self.max_hash_lag.max(*l);
        }
        self.max_tasks = self.max_tasks.max(r.record.spawned + 1);
        for f in &r.outcome.fired {
            *self.faults_fired.entry((*f).into()).or_default() += 1;
        }
        if r.outcome.fired.is_empty() {
            self.fault_free_runs += 1;
        }
        if r.outcome.probes.0 > 0 {
            *self.faults_fired.entry("oversize_probe_then_fallback".into()).or_default() += r.outcome.probes.1 as u64;
        }
        match &r.outcome.result {
            Ok(_) => self.ok_results += 1,
            Err(_) => self.err_results += 1,
        }
    }
}

fn check_streaminfo(w: &Workload, r: &ExecResult) -> Option<String> {
    if r.outcome.probes.0 != r.outcome.probes.1 {
        // an oversize probe fill was ACCEPTED: what counts as "consumed" is then undefined here (C17's business)
        return None;
    }
    let Ok(bytes) = &r.outcome.result else {
        return Some(format!("fault-free encode returned an error: {:?}", r.outcome.result.as_ref().err()));
    };
    let Some(si) = parse_streaminfo(bytes) else {
        return Some("emitted bytes do not start with fLaC + a 34-byte STREAMINFO".into());
    };
    let consumed = (r.outcome.handed_len / w.channels) as u64;
    let mut bad = vec![];
    // "the MD5 of the input": a fault-free source must have been read to its end (everything after the
    // blocks its owner read before the hand-over)
    let pre: usize = w.plan_reads().iter().take(w.pre_reads).map(|p| p.len).sum();
    let expected = (w.total_samples().saturating_sub(pre)) as u64;
    if w.faults.is_empty() && consumed != expected {
        bad.push(format!("the source holds {expected} more samples but only {consumed} were consumed (input not read to its end)"));
    }
    if si.rate as usize != w.rate {
        bad.push(format!("sample_rate {} != {}", si.rate, w.rate));
    }
    if si.channels as usize != w.channels {
        bad.push(format!("channels {} != {}", si.channels, w.channels));
    }
    if si.bits as usize != w.bits {
        bad.push(format!("bits {} != {}", si.bits, w.bits));
    }
    if si.total != consumed {
        bad.push(format!("total_samples {} != consumed {}", si.total, consumed));
    }
    if si.md5 != r.outcome.handed_md5 {
        bad.push(format!(
            "md5 {} != md5(input) {}",
            hex(&si.md5),
            hex(&r.outcome.handed_md5)
        ));
    }
    if bad.is_empty() {
        None
    } else {
        Some(bad.join("; "))
    }
}

fn hex(b: &[u8]) -> String {
    b.iter().map(|x| format!("{x:02x}")).collect()
}

fn first_diff(a: &[u8], b: &[u8]) -> String {
    let n = a.len().min(b.len());
    let at = (0..n).find(|i| a[*i] != b[*i]);
    format!(
        "len {} vs {}, first differing byte {:?}",
        a.len(),
        b.len(),
        at.or(if a.len() == b.len() { None } else { Some(n) })
    )
}

fn res_summary(r: &Result<Vec<u8>, ErrInfo>) -> String {
    match r {
        Ok(b) => format!("Ok({} bytes, fnv {:016x})", b.len(), fnv_bytes(b)),
        Err(e) => format!("Err({}: {})", e.kind, e.text),
    }
}

fn fnv_bytes(b: &[u8]) -> u64 {
    let mut h = 0xcbf2_9ce4_8422_2325u64;
    for x in b {
        h ^= u64::from(*x);
        h = h.wrapping_mul(0x0000_0100_0000_01B3);
    }
    h
}

struct Plan {
    prop: String,
    purpose: Purpose,
    tier: Tier,
    scheds: u64,
}

/// Runs one workload through its references and `scheds` schedules; exits the
/// process with code 3 on the first violation.
#[allow(clippy::too_many_lines)]
fn run_workload(plan: &Plan, w: &Workload, run_index: u64, seed: u64, cov: &mut Cov, fixed: Option<&ScheduleSpec>, digests: bool) {
    if let Ok(mut g) = CUR_WORKLOAD.lock() {
        let ctx = CTX.with(|c| {
            let c = c.borrow();
            let c = c.as_ref().expect("ctx");
            Ctx { prop: c.prop.clone(), seed: c.seed, tier: c.tier.clone(), replay_out: c.replay_out.clone() }
        });
        *g = Some((w.clone(), run_index, ctx));
    }
    rng::tick();
    let whash = w.hash();
    let data = Arc::new(w.samples());
    cov.workloads += 1;
    *cov.workers_hist
        .entry(match (&w.workers, &w.env_workers) {
            (Some(n), _) => format!("cfg:{n}"),
            (None, Some(e)) => format!("env:{e:?}"),
            (None, None) => "machine".into(),
        })
        .or_default() += 1;
    *cov.delivery_hist
        .entry(if w.via_mem { "library_memsource".into() } else { ["ints", "bytes", "mixed"][w.delivery as usize % 3].into() })
        .or_default() += 1;
    *cov.bits_hist.entry(w.bits.to_string()).or_default() += 1;

    let uni = Policy::Uniform;
    // plan the whole batch: references first, then the schedules
    let mut plans = vec![ExecPlan {
        mode: Mode::Single,
        policy: uni.clone(),
        sched_seed: 0,
        replay: vec![],
        sched_index: u64::MAX,
    }];
    let with_framewise = plan.prop == "C05" || plan.prop == "C03";
    if with_framewise {
        plans.push(ExecPlan {
            mode: Mode::Framewise,
            policy: uni.clone(),
            sched_seed: 0,
            replay: vec![],
            sched_index: u64::MAX - 1,
        });
    }
    // the long classes (more than 65536 frames; 2^32 samples) can only afford a few schedules each
    let nsched = if fixed.is_some() {
        1
    } else if w.synthetic_silence {
        1
    } else if w.nfull > 20_000 {
        plan.scheds.min(2)
    } else {
        plan.scheds
    };
    for s in 0..nsched {
        let (policy, sseed, replay) = match fixed {
            Some(f) => (f.policy.clone(), f.seed, f.choices.clone()),
            None => {
                let mut r = Rng::new(mix(mix(seed, run_index), 0x5C4E_D000 + s));
                let ntasks = w.workers.unwrap_or(3) as u32 + 2;
                // deep-queue workloads: half of the schedules hold the hashing thread back (it is the
                // task spawned after the workers) so that its queue can fill to the shipped capacity
                let pol = if w.nfull >= 17 && w.hashq_cap == 16 && w.workers.is_some() && r.chance(0.5) {
                    let hasher = w.workers.unwrap_or(1) as u32 + 1;
                    if r.chance(0.5) {
                        Policy::Starve { victims: vec![hasher] }
                    } else {
                        Policy::Stall {
                            victim: hasher,
                            from: r.below(200) as u32,
                            len: *r.pick(&[2000u32, 6000, 20000]),
                        }
                    }
                } else {
                    random_policy(&mut r, ntasks)
                };
                (pol, r.next_u64(), vec![])
            }
        };
        plans.push(ExecPlan {
            mode: Mode::Par,
            policy,
            sched_seed: sseed,
            replay,
            sched_index: s,
        });
    }
    let par_plans: Vec<ExecPlan> = plans.iter().filter(|p| p.mode == Mode::Par).cloned().collect();
    // The single-thread reference runs first, alone: if the library emits a stream far larger
    // than the raw PCM (its bit-count order selection degenerates on some loud 20/24-bit blocks,
    // frames of hundreds of MB — the business of C09/C13, not of this simulation) the workload is
    // skipped and counted instead of paying that cost once per schedule. The criterion is a
    // function of the emitted bytes only, so it is deterministic.
    let rest = plans.split_off(1);
    // C14P: the reference is the single-thread encode of the same audio delivered as integers only
    // (same read lengths), whatever representation the multi-thread runs receive.
    let wref = if plan.prop == "C14P" {
        let mut x = w.clone();
        x.delivery = 0;
        x
    } else {
        w.clone()
    };
    let single = execute_batch(&wref, &data, plans, run_index, false).pop().expect("single result");
    cov.absorb(w, whash, &uni, &single, Mode::Single);
    if let Ok(b) = &single.outcome.result {
        let raw = w.total_samples() * w.channels * w.bytes_per_sample();
        if b.len() > 2 * raw + 4096 {
            cov.skipped_oversize_output += 1;
            return;
        }
    }
    let mut results = execute_batch(w, &data, rest, run_index, false).into_iter();
    let sctx = (w, Mode::Single, &uni, 0u64, &single, run_index, u64::MAX);
    let has_faults = !w.faults.is_empty();

    match plan.prop.as_str() {
        "C05" | "C03" | "C14P" | "C10P" => {
            if has_faults {
                harness_error("fault plan in a fault-free property run");
            }
            if plan.prop == "C03" {
                if let Some(d) = check_streaminfo(w, &single) {
                    violation(sctx, "streaminfo_mismatch", format!("single-thread: {d}"));
                }
                // a stream assembled block by block by the caller from the library's own `Context`
                // (digest and count taken from it at the end, possibly looked at in between)
                let fw = results.next().expect("framewise result");
                cov.absorb(w, whash, &uni, &fw, Mode::Framewise);
                if let Some(d) = check_streaminfo(w, &fw) {
                    violation((w, Mode::Framewise, &uni, 0, &fw, run_index, u64::MAX - 1), "streaminfo_mismatch", format!("frame-wise assembly: {d}"));
                }
            }
            if plan.prop == "C05" {
                let fw = results.next().expect("framewise result");
                cov.absorb(w, whash, &uni, &fw, Mode::Framewise);
                if fw.outcome.result != single.outcome.result {
                    let d = match (&fw.outcome.result, &single.outcome.result) {
                        (Ok(a), Ok(b)) => first_diff(a, b),
                        (a, b) => format!("{} vs {}", res_summary(a), res_summary(b)),
                    };
                    violation(
                        (w, Mode::Framewise, &uni, 0, &fw, run_index, u64::MAX - 1),
                        "bytes_mismatch_framewise_vs_single",
                        d,
                    );
                }
            }
            if single.outcome.result.is_err() {
                cov.skipped_single_err += 1;
            }
        }
        "C06" | "C06N" | "C17P" => {}
        other => harness_error(&format!("unknown property {other}")),
    }

    for (pp, par) in par_plans.iter().zip(results) {
        let (policy, sseed, s) = (pp.policy.clone(), pp.sched_seed, pp.sched_index);
        if let Some(at) = par.diverged {
            harness_error(&format!("replay diverged at step {at} (recorded task not runnable)"));
        }
        cov.absorb(w, whash, &policy, &par, Mode::Par);
        let pctx = (w, Mode::Par, &policy, sseed, &par, run_index, s);
        if digests {
            cov.digests.push(format!(
                "{run_index} {s} {whash:016x} {:016x} {:016x} {}",
                par.sched_hash,
                par.record.event_hash,
                res_summary(&par.outcome.result)
            ));
        }
        match plan.prop.as_str() {
            "C05" | "C14P" | "C10P" => {
                if par.outcome.result != single.outcome.result {
                    let d = match (&par.outcome.result, &single.outcome.result) {
                        (Ok(a), Ok(b)) => first_diff(a, b),
                        (a, b) => format!("par {} vs single {}", res_summary(a), res_summary(b)),
                    };
                    violation(pctx, match plan.prop.as_str() { "C10P" => "history_dependent_result", "C14P" => "delivery_mode_mismatch", _ => "bytes_mismatch_par_vs_single" }, d);
                }
            }
            "C03" => {
                if let Some(d) = check_streaminfo(w, &par) {
                    violation(pctx, "streaminfo_mismatch", format!("multi-thread: {d}"));
                }
            }
            "C06" | "C06N" | "C17P" => {
                // (d) no thread started by the call is alive when it returns
                if par.outcome.live_at_return != 0 {
                    let mut st: Vec<String> = par.outcome.live_states.iter().map(|(_, s)| format!("{s:?}")).collect();
                    st.sort();
                    st.dedup();
                    let obs = Observed {
                        class: "thread_leak".into(),
                        site: st.join("+"),
                        message: String::new(),
                        detail: format!(
                            "{} thread(s) still alive when the call returned {}: {:?}",
                            par.outcome.live_at_return,
                            res_summary(&par.outcome.result),
                            par.outcome.live_states
                        ),
                    };
                    write_replay_and_exit(w, Mode::Par, &policy, sseed, (par.choices.clone(), par.devs.clone()), run_index, s, obs);
                }
                if par.record.spawned != par.record.finished {
                    violation(pctx, "thread_leak_at_end", format!("spawned {} finished {}", par.record.spawned, par.record.finished));
                }
                if plan.prop == "C17P" {
                    // Byzantine source: an error is required, nothing else is compared
                    if par.outcome.result.is_ok() && !par.outcome.fired.is_empty() {
                        violation(pctx, "byzantine_accepted", format!("fired {:?}, par returned {}", par.outcome.fired, res_summary(&par.outcome.result)));
                    }
                    continue;
                }
                match (&single.outcome.result, &par.outcome.result) {
                    (Ok(a), Ok(b)) => {
                        if a != b {
                            violation(pctx, "bytes_mismatch_par_vs_single", first_diff(b, a));
                        }
                    }
                    (Err(se), Err(pe)) => {
                        // "an error of the same kind single-threaded encoding returns": the kind is the
                        // EncodeError variant. This also holds for plans that mix fault kinds: frames queued
                        // before a failed read are still encoded, and a read after a bad block is never
                        // issued by the single-thread encoder either. A different text within the same kind
                        // is counted (`order_divergent`), not judged.
                        if se.kind != pe.kind {
                            violation(pctx, "error_kind_mismatch", format!("single {se:?} vs par {pe:?}"));
                        } else if se != pe {
                            cov.order_divergent += 1;
                        }
                    }
                    (Err(se), Ok(_)) => {
                        violation(pctx, "fault_swallowed", format!("single returned {se:?}, par returned Ok"));
                    }
                    (Ok(_), Err(pe)) => {
                        violation(pctx, "spurious_error", format!("single returned Ok, par returned {pe:?}"));
                    }
                }
            }
            _ => unreachable!(),
        }
    }
    if cov.samples.len() < 4 {
        cov.samples.push(json!({"run_index": run_index, "workload": w, "single": res_summary(&single.outcome.result)}));
    }
}

/// (C10, multi-thread slice) gives `w` an earlier call on the same simulated main thread: a neighbouring
/// call (one argument changed) in single- or multi-thread mode; the observed call is multi-thread, or
/// single-thread after a multi-thread one.
fn attach_pre_call(w: &mut Workload, pseed: u64, i: u64) {
    let mut r = Rng::new(mix(mix(pseed, i), 0xC10_9A4));
    w.hashq_cap = 16;
    let mut small = w.clone();
    small.nfull = small.nfull.min(4);
    small.env_workers = w.env_workers.clone();
    let (mut pw, tag) = workload::neighbour(&small, &mut r);
    pw.workers = w.workers.or(Some(2));
    pw.env_workers = w.env_workers.clone();
    pw.hashq_cap = 16;
    let par = r.chance(0.6);
    if pw.faults.is_empty() && r.chance(0.3) {
        // the earlier call ends with an error (its source fails or delivers an out-of-range sample)
        let nreads = pw.plan_reads().len();
        if nreads > 0 {
            let k = r.below(nreads);
            let f = if r.chance(0.5) {
                workload::gen_out_of_range(&mut r, &pw, k)
            } else {
                Fault::ReadError {
                    k,
                    after_fill: false,
                    reason: r.below(10) as u8,
                }
            };
            pw.faults.push(f);
        }
    }
    // the observed call is single-thread after a multi-thread one, or (less often) after a single-thread one
    let last_single = if par { r.chance(0.4) } else { r.chance(0.25) };
    w.pre = Some(Box::new(workload::PreCall {
        w: pw,
        par,
        last_single,
        concurrent: false,
        failed_write: r.chance(0.3).then(|| r.below(1000) as u32),
        derived: tag,
    }));
}

/// With probability ~7 % a second caller thread runs another encode (a small neighbour of `w`, half of the
/// time with a source fault of its own) concurrently with the observed one.
fn attach_concurrent_call(w: &mut Workload, pseed: u64, i: u64) {
    let mut r = Rng::new(mix(mix(pseed, i), 0xC0_2C4A));
    if !r.chance(0.07) || w.workers.is_none() {
        return;
    }
    let mut small = w.clone();
    small.pre = None;
    small.faults.clear();
    small.nfull = small.nfull.min(5);
    small.pre_reads = 0;
    small.probe_reads.clear();
    let (mut pw, tag) = workload::neighbour(&small, &mut r);
    pw.workers = Some(1 + r.below(2));
    pw.env_workers = w.env_workers.clone();
    pw.hashq_cap = w.hashq_cap;
    if pw.faults.is_empty() && r.chance(0.5) {
        let nreads = pw.plan_reads().len();
        if nreads > 0 {
            let k = r.below(nreads);
            let f = if r.chance(0.5) {
                workload::gen_out_of_range(&mut r, &pw, k)
            } else {
                Fault::ReadError {
                    k,
                    after_fill: false,
                    reason: r.below(10) as u8,
                }
            };
            pw.faults.push(f);
        }
    }
    w.pre = Some(Box::new(workload::PreCall {
        w: pw,
        par: true,
        last_single: false,
        concurrent: true,
        failed_write: None,
        derived: tag,
    }));
}

fn arg<'a>(args: &'a [String], name: &str) -> Option<&'a str> {
    args.iter().position(|a| a == name).and_then(|i| args.get(i + 1)).map(String::as_str)
}

fn plan_for(prop: &str, tier: Tier, scheds: u64) -> Plan {
    let purpose = match prop {
        "C05" => Purpose::Equivalence,
        "C03" | "C14P" => Purpose::StreamInfo,
        "C06" => Purpose::Faults,
        "C06N" | "C10P" => Purpose::Equivalence,
        "C17P" => Purpose::Byzantine,
        other => harness_error(&format!("unknown property {other}")),
    };
    Plan {
        prop: prop.to_owned(),
        purpose,
        tier,
        scheds,
    }
}

fn main() {
    let args: Vec<String> = std::env::args().collect();
    if args.len() < 2 {
        harness_error("usage: parsim run|exec ...");
    }
    install_hook();
    match args[1].as_str() {
        "run" => cmd_run(&args),
        "exec" => cmd_exec(&args),
        "chanconf" => {
            let seed: u64 = arg(&args, "--seed").unwrap_or("1").parse().unwrap();
            let count: u64 = arg(&args, "--count").unwrap_or("20000").parse().unwrap();
            match chanconf::run(seed, count) {
                Ok((n, ops)) => println!("RESULT {}", json!({"sequences": n, "operations": ops, "conforms": true})),
                Err(e) => harness_error(&format!("channel model does not conform to crossbeam-channel: {e}")),
            }
        }
        "gen" => {
            // print the workload a run would generate (for debugging / documentation)
            let prop = arg(&args, "--prop").unwrap_or("C05");
            let tier = if arg(&args, "--tier") == Some("thorough") { Tier::Thorough } else { Tier::Quick };
            let seed: u64 = arg(&args, "--seed").unwrap_or("1").parse().unwrap();
            let i: u64 = arg(&args, "--index").unwrap_or("0").parse().unwrap();
            let plan = plan_for(prop, tier, 1);
            let w = gen(plan.purpose, tier, mix(seed, fnv(prop)), i);
            println!("{}", serde_json::to_string_pretty(&w).unwrap());
        }
        other => harness_error(&format!("unknown command {other}")),
    }
}

fn make_summary(prop: &str, tier_s: &str, seed: u64, child: u64, nchild: u64, from: u64, count: u64, last: u64, wall: f64, cov: &Cov) -> serde_json::Value {
    json!({
        "property": prop, "tier": tier_s, "seed": seed, "child": child, "nchild": nchild,
        "from": from, "count": count, "last_index": last, "wall_s": wall,
        "workloads": cov.workloads, "executions": cov.executions, "par_executions": cov.par_executions,
        "nontrivial_runs": cov.nontrivial,
        "distinct": cov.distinct.len(), "distinct_nontrivial": cov.distinct_nontrivial.len(),
        "completion_orders": cov.completion_orders.iter().collect::<Vec<_>>(),
        "out_of_order_runs": cov.out_of_order_runs, "blocking_runs": cov.blocking_runs,
        "steps": cov.steps, "events": cov.events,
        "states": cov.states.iter().collect::<Vec<_>>(),
        "transitions": cov.transitions.iter().map(|(a, b)| mix(*a, *b)).collect::<Vec<_>>(),
        "chan_max_len": cov.chan_max_len, "blocking_sends": cov.blocking_sends, "blocking_recvs": cov.blocking_recvs,
        "hashq_full_runs": cov.hashq_full_runs, "max_hash_lag": cov.max_hash_lag,
        "policies": cov.policies, "ooo_by_policy": cov.ooo_by_policy, "faults_fired": cov.faults_fired, "fault_free_runs": cov.fault_free_runs,
        "order_divergent": cov.order_divergent, "ok_results": cov.ok_results, "err_results": cov.err_results,
        "max_tasks": cov.max_tasks, "workers_hist": cov.workers_hist, "delivery_hist": cov.delivery_hist,
        "bits_hist": cov.bits_hist, "skipped_single_err": cov.skipped_single_err,
        "budget_max_ratio": cov.budget_max_ratio,
        "slowest_ms_index": cov.slowest,
        "skipped_oversize_output": cov.skipped_oversize_output,
        "samples": cov.samples,
    })
}

fn cmd_run(args: &[String]) {
    let prop = arg(args, "--prop").unwrap_or("C05").to_owned();
    let tier_s = arg(args, "--tier").unwrap_or("quick").to_owned();
    let tier = if tier_s == "thorough" { Tier::Thorough } else { Tier::Quick };
    let seed: u64 = arg(args, "--seed").unwrap_or("1").parse().unwrap();
    let from: u64 = arg(args, "--from").unwrap_or("0").parse().unwrap();
    let count: u64 = arg(args, "--count").unwrap_or("100").parse().unwrap();
    let child: u64 = arg(args, "--child").unwrap_or("0").parse().unwrap();
    let nchild: u64 = arg(args, "--nchild").unwrap_or("1").parse().unwrap();
    let scheds: u64 = arg(args, "--scheds").unwrap_or("20").parse().unwrap();
    let out = arg(args, "--out").map(str::to_owned);
    let digests = arg(args, "--digests").map(str::to_owned);
    let replay_out = arg(args, "--replay-out").unwrap_or("/verif/replays/cand-{i}-{s}.json").to_owned();
    CTX.with(|c| {
        *c.borrow_mut() = Some(Ctx {
            prop: prop.clone(),
            seed,
            tier: tier_s.clone(),
            replay_out,
        });
    });
    if child % 2 == 1 {
        logger::install();
        LOGGER_ON.store(true, std::sync::atomic::Ordering::Relaxed);
    }
    start_watchdog(arg(args, "--hang-s").and_then(|s| s.parse().ok()).unwrap_or(120));
    let plan = plan_for(&prop, tier, scheds);
    let pseed = mix(seed, fnv(&prop));
    let mut cov = Cov::default();
    let t0 = std::time::Instant::now();
    let mut last = from;
    for i in from..count {
        let mut w = gen(plan.purpose, tier, pseed, i);
        // "repeating a run gives identical bytes": a tenth of the C05 and C03 workloads follow an earlier call (and,
        // for some, a failed write) on the same calling thread
        if prop == "C10P" || (matches!(prop.as_str(), "C05" | "C03") && i % 10 == 3 && w.nfull < 2_000) {
            attach_pre_call(&mut w, pseed, i);
        }
        if matches!(prop.as_str(), "C05" | "C06" | "C06N" | "C03") && w.nfull < 20_000 {
            attach_concurrent_call(&mut w, pseed, i);
        }
        // identical workloads always land in the same child, so per-child distinct counts add up exactly
        if w.hash() % nchild != child {
            continue;
        }
        let tw = std::time::Instant::now();
        run_workload(&plan, &w, i, pseed, &mut cov, None, digests.is_some());
        let ms = tw.elapsed().as_millis() as u64;
        cov.slowest.push((ms, i));
        cov.slowest.sort_unstable_by(|a, b| b.cmp(a));
        cov.slowest.truncate(8);
        last = i;
        // coverage so far is flushed now and then, so that it survives an exit on a violation
        if cov.workloads % 64 == 0 {
            if let Some(p) = &out {
                let part = make_summary(&prop, &tier_s, seed, child, nchild, from, count, last, t0.elapsed().as_secs_f64(), &cov);
                let _ = std::fs::write(p, serde_json::to_string(&part).unwrap());
            }
        }
    }
    let wall = t0.elapsed().as_secs_f64();
    let summary = make_summary(&prop, &tier_s, seed, child, nchild, from, count, last, wall, &cov);
    if let Some(p) = out {
        std::fs::write(&p, serde_json::to_string(&summary).unwrap()).expect("write summary");
    } else {
        println!("{}", serde_json::to_string_pretty(&summary).unwrap());
    }
    if let Some(p) = digests {
        std::fs::write(&p, cov.digests.join("\n") + "\n").expect("write digests");
    }
}

fn cmd_exec(args: &[String]) {
    let file = arg(args, "--file").unwrap_or_else(|| harness_error("--file required"));
    let text = std::fs::read_to_string(file).unwrap_or_else(|e| harness_error(&format!("cannot read {file}: {e}")));
    let rf: ReplayFile = serde_json::from_str(&text).unwrap_or_else(|e| harness_error(&format!("bad replay file: {e}")));
    if rf.logger {
        logger::install();
        LOGGER_ON.store(true, std::sync::atomic::Ordering::Relaxed);
    }
    start_watchdog(arg(args, "--hang-s").and_then(|s| s.parse().ok()).unwrap_or(120));
    let search: u64 = arg(args, "--search").unwrap_or("0").parse().unwrap();
    let sseed: u64 = arg(args, "--search-seed").unwrap_or("1").parse().unwrap();
    let replay_out = arg(args, "--replay-out").unwrap_or("/verif/replays/exec-out.json").to_owned();
    CTX.with(|c| {
        *c.borrow_mut() = Some(Ctx {
            prop: rf.property.clone(),
            seed: rf.verif_seed,
            tier: rf.tier.clone(),
            replay_out,
        });
    });
    let tier = if rf.tier == "thorough" { Tier::Thorough } else { Tier::Quick };
    let mut cov = Cov::default();
    if search == 0 {
        let plan = plan_for(&rf.property, tier, 1);
        let mut spec = rf.schedule.clone();
        if !spec.choices.is_empty() && !matches!(spec.policy, Policy::Deviations { .. }) {
            spec.policy = Policy::Replay;
        }
        run_workload(&plan, &rf.workload, rf.run_index, mix(rf.verif_seed, fnv(&rf.property)), &mut cov, Some(&spec), false);
    } else {
        let plan = plan_for(&rf.property, tier, search);
        run_workload(&plan, &rf.workload, rf.run_index, mix(sseed, 0xEC5E_A4C4), &mut cov, None, false);
    }
    println!("RESULT {}", json!({"violation": false, "executions": cov.executions}));
}
