fn main(){}
