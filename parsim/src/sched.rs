//! Seeded scheduler for shuttle executions. Every decision comes from one
//! PRNG; the chosen task id at every step is recorded (the *schedule*), and a
//! recorded schedule can be replayed exactly.

use crate::rng::Rng;
use serde::{Deserialize, Serialize};
use shuttle::scheduler::{Schedule, Scheduler, Task, TaskId};
use std::cell::RefCell;
use std::collections::BTreeMap;
use std::rc::Rc;

#[derive(Serialize, Deserialize, Clone, Debug, PartialEq)]
#[serde(tag = "name")]
pub enum Policy {
    /// any runnable task, uniformly
    Uniform,
    /// keep the current task with probability `p_keep` (per mille)
    Sticky { p_keep: u32 },
    /// random priorities, `d` priority change points spread over `horizon` steps
    Pct { d: u32, horizon: u32 },
    /// tasks in `victims` run only when nothing else can
    Starve { victims: Vec<u32> },
    /// next task id after the current one
    RoundRobin,
    /// uniform, but `victim` is not scheduled during steps `from..from+len` unless nothing
    /// else can run (a thread descheduled in the middle of its work while the others go on)
    Stall { victim: u32, from: u32, len: u32 },
    /// the main task (feeder) is preferred during the first `k` steps so that several frames are
    /// in flight, then `victim` is held back for `len` steps while the others run (sticky, `p_keep` per mille)
    Ahead { k: u32, victim: u32, len: u32, p_keep: u32 },
    /// "continue the current task if runnable, else the lowest id", except at
    /// the listed (step, task) deviations. Used for schedule minimisation.
    Deviations { dev: Vec<(u32, u32)> },
    /// replay a recorded choice list exactly
    Replay,
}

pub fn random_policy(r: &mut Rng, ntasks_guess: u32) -> Policy {
    match r.below(16) {
        12..=15 => Policy::Ahead {
            k: *r.pick(&[30u32, 60, 100, 150, 250, 400]),
            victim: 1 + r.below(ntasks_guess.max(2) as usize - 1) as u32,
            len: *r.pick(&[10u32, 30, 80, 200, 1000]),
            p_keep: *r.pick(&[0u32, 500, 900]),
        },
        10 | 11 => Policy::Stall {
            victim: r.below(ntasks_guess.max(1) as usize) as u32,
            from: r.below(400) as u32,
            len: *r.pick(&[20u32, 60, 150, 400, 2000]),
        },
        0 | 1 | 2 => Policy::Uniform,
        3 | 4 => Policy::Sticky {
            p_keep: *r.pick(&[500u32, 800, 900, 950, 990]),
        },
        5 | 6 => Policy::Pct {
            d: 1 + r.below(5) as u32,
            horizon: *r.pick(&[50u32, 200, 600, 2000]),
        },
        7 | 8 => {
            let nv = 1 + r.below(2);
            let mut victims = vec![];
            for _ in 0..nv {
                victims.push(r.below(ntasks_guess.max(1) as usize) as u32);
            }
            victims.sort_unstable();
            victims.dedup();
            Policy::Starve { victims }
        }
        _ => Policy::RoundRobin,
    }
}

#[derive(Debug, Default)]
pub struct SchedState {
    pub choices: Vec<u32>,
    pub diverged: Option<usize>,
    pub max_runnable: usize,
    pub switches: usize,
    pub hash: u64,
    /// (step, task) pairs where the choice differs from the default policy
    /// "continue the current task if runnable, else the lowest id".
    pub devs: Vec<(u32, u32)>,
}

/// Decision logic of one execution.
pub struct Decider {
    policy: Policy,
    rng: Rng,
    replay: Vec<u32>,
    prio: BTreeMap<u32, u64>,
    change_points: Vec<u32>,
    dev: BTreeMap<u32, u32>,
    pub state: Rc<RefCell<SchedState>>,
}

/// Hooks the batch runner provides: called between executions.
pub trait BatchDriver {
    /// Finalises the previous execution (if any) and returns the decider of the next one,
    /// or `None` when the batch is over.
    fn next_execution(&mut self) -> Option<Decider>;
}

/// A scheduler that runs a batch of executions inside ONE `shuttle::Runner`
/// (so that continuations / stacks are reused), each with its own `Decider`.
pub struct BatchScheduler<D: BatchDriver> {
    pub driver: D,
    cur: Option<Decider>,
}

impl<D: BatchDriver> BatchScheduler<D> {
    pub fn new(driver: D) -> Self {
        Self { driver, cur: None }
    }
}

impl<D: BatchDriver> Scheduler for BatchScheduler<D> {
    fn new_execution(&mut self) -> Option<Schedule> {
        self.cur = self.driver.next_execution();
        self.cur.as_ref().map(|_| Schedule::new(0))
    }
    fn next_task(&mut self, runnable: &[&Task], current: Option<TaskId>, is_yielding: bool) -> Option<TaskId> {
        crate::rng::tick();
        self.cur.as_mut().expect("decider").next_task(runnable, current, is_yielding)
    }
    fn next_u64(&mut self) -> u64 {
        self.cur.as_mut().expect("decider").rng.next_u64()
    }
}

impl Decider {
    pub fn new(policy: Policy, seed: u64, replay: Vec<u32>) -> Self {
        let mut rng = Rng::new(seed ^ 0x5EED_5C4E_D01E_0001);
        let mut change_points = vec![];
        let mut dev = BTreeMap::new();
        match &policy {
            Policy::Pct { d, horizon } => {
                for _ in 0..*d {
                    change_points.push(rng.below(*horizon as usize) as u32);
                }
            }
            Policy::Deviations { dev: d } => {
                for (s, t) in d {
                    dev.insert(*s, *t);
                }
            }
            _ => {}
        }
        Self {
            policy,
            rng,
            replay,
            prio: BTreeMap::new(),
            change_points,
            dev,
            state: Rc::new(RefCell::new(SchedState::default())),
        }
    }

    pub fn next_task(&mut self, runnable: &[&Task], current: Option<TaskId>, _is_yielding: bool) -> Option<TaskId> {
        let ids: Vec<u32> = runnable.iter().map(|t| usize::from(t.id()) as u32).collect();
        let cur: Option<u32> = current.map(|t| usize::from(t) as u32);
        let step = self.state.borrow().choices.len() as u32;
        let cur_runnable = cur.filter(|c| ids.contains(c));
        let lowest = *ids.iter().min().unwrap();
        let pick: u32 = match &self.policy {
            Policy::Uniform => ids[self.rng.below(ids.len())],
            Policy::Sticky { p_keep } => {
                let keep = (self.rng.below(1000) as u32) < *p_keep;
                match cur_runnable {
                    Some(c) if keep => c,
                    _ => ids[self.rng.below(ids.len())],
                }
            }
            Policy::Pct { .. } => {
                for id in &ids {
                    if !self.prio.contains_key(id) {
                        let p = (self.rng.next_u64() >> 1) | (1 << 62);
                        self.prio.insert(*id, p);
                    }
                }
                if self.change_points.contains(&step) {
                    if let Some(c) = cur {
                        // demote the running task below everything else
                        let low = self.rng.next_u64() >> 8;
                        self.prio.insert(c, low);
                    }
                }
                *ids.iter().max_by_key(|id| self.prio[*id]).unwrap()
            }
            Policy::Starve { victims } => {
                let others: Vec<u32> = ids.iter().copied().filter(|i| !victims.contains(i)).collect();
                if others.is_empty() {
                    ids[self.rng.below(ids.len())]
                } else {
                    others[self.rng.below(others.len())]
                }
            }
            Policy::Stall { victim, from, len } => {
                let stalled = step >= *from && step - *from < *len;
                let others: Vec<u32> = ids.iter().copied().filter(|i| !(stalled && i == victim)).collect();
                if others.is_empty() {
                    ids[self.rng.below(ids.len())]
                } else {
                    others[self.rng.below(others.len())]
                }
            }
            Policy::Ahead { k, victim, len, p_keep } => {
                let keep = (self.rng.below(1000) as u32) < *p_keep;
                if step < *k && ids.contains(&0) {
                    0
                } else {
                    let stalled = step >= *k && step - *k < *len;
                    let others: Vec<u32> = ids.iter().copied().filter(|i| !(stalled && i == victim)).collect();
                    match cur_runnable {
                        Some(c) if keep && (others.is_empty() || others.contains(&c)) => c,
                        _ if others.is_empty() => ids[self.rng.below(ids.len())],
                        _ => others[self.rng.below(others.len())],
                    }
                }
            }
            Policy::RoundRobin => {
                let c = cur.unwrap_or(0);
                *ids.iter().filter(|i| **i > c).min().unwrap_or(&lowest)
            }
            Policy::Deviations { .. } => match self.dev.get(&step) {
                Some(t) if ids.contains(t) => *t,
                _ => cur_runnable.unwrap_or(lowest),
            },
            Policy::Replay => {
                let want = self.replay.get(step as usize).copied();
                match want {
                    Some(t) if ids.contains(&t) => t,
                    _ => {
                        let mut st = self.state.borrow_mut();
                        if st.diverged.is_none() {
                            st.diverged = Some(step as usize);
                        }
                        cur_runnable.unwrap_or(lowest)
                    }
                }
            }
        };
        let mut st = self.state.borrow_mut();
        st.choices.push(pick);
        if pick != cur_runnable.unwrap_or(lowest) {
            st.devs.push((step, pick));
        }
        st.max_runnable = st.max_runnable.max(ids.len());
        if cur != Some(pick) {
            st.switches += 1;
        }
        st.hash = crate::rng::mix(st.hash, u64::from(pick) + 1);
        Some(TaskId::from(pick as usize))
    }
}
