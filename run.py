#!/usr/bin/env python3
"""Driver of the deterministic-simulation checks for flacenc-rs (see DESIGN.md).

  ./run.py setup
  ./run.py check <id> --tier quick|thorough
  ./run.py replay <file>
  ./run.py selfcheck determinism|mutants

Exit codes: 0 = property held on everything explored (known findings are
printed as KNOWN-FINDING lines), 1 = violation (a line
`VIOLATION property=<id> replay=<path>` is printed), 2 = harness error.
"""
import hashlib
import json
import os
import re
import shutil
import subprocess
import sys
import time

HERE = os.path.dirname(os.path.abspath(__file__))
sys.path.insert(0, HERE)
import gen_shadow  # noqa: E402

REPO = os.environ.get("VERIF_REPO", "/repo")
NPROC = int(os.environ.get("VERIF_JOBS", "16"))
REPLAYS = os.path.join(HERE, "replays")
EVIDENCE = os.environ.get("VERIF_EVIDENCE_DIR") or (
    os.path.join(HERE, "evidence") if os.path.realpath(REPO) == "/repo" else os.path.join(HERE, "tmp", "evidence-scratch"))
PARTIAL = os.path.join(EVIDENCE, ".partial")
KNOWN = os.path.join(HERE, "known_findings.json")

# builds of a scratch copy (VERIF_REPO=<dir>: mutants, seeded changes) go to their own target
# directories so that the build cache for /repo itself stays warm
SCRATCH = os.path.realpath(REPO) != "/repo"
TGT_SUFFIX = "-scratch" if SCRATCH else ""
TGT_PARSIM = os.path.join(HERE, "target-parsim" + TGT_SUFFIX)
TGT_SEAMSIM = os.path.join(HERE, "target-seamsim" + TGT_SUFFIX)
PARSIM = os.path.join(TGT_PARSIM, "release", "parsim")
SEAMSIM = os.path.join(TGT_SEAMSIM, "release", "seamsim")
SEAMSIM_DBG = os.path.join(TGT_SEAMSIM, "checked", "seamsim")
# the library built with its `experimental` feature (thorough tier)
TGT_PARSIM_EXP = os.path.join(HERE, "target-parsim-exp" + TGT_SUFFIX)
TGT_SEAMSIM_EXP = os.path.join(HERE, "target-seamsim-exp" + TGT_SUFFIX)
PARSIM_EXP = os.path.join(TGT_PARSIM_EXP, "release", "parsim")
PARSIM_DBG = os.path.join(TGT_PARSIM, "checked", "parsim")
SEAMSIM_EXP = os.path.join(TGT_SEAMSIM_EXP, "release", "seamsim")
# the library built with the `par` feature alone (no `log`, no `serde`): what `--no-default-features --features par` users get
TGT_PARSIM_MIN = os.path.join(HERE, "target-parsim-min" + TGT_SUFFIX)
PARSIM_MIN = os.path.join(TGT_PARSIM_MIN, "release", "parsim")

ENV = dict(os.environ, CARGO_NET_OFFLINE="true")
# glibc malloc otherwise trims and re-faults the heap top on every large temporary buffer
# (measured: 3.6x more wall time, almost all of it in the kernel); tuning only, no effect on results
ENV.setdefault("MALLOC_TRIM_THRESHOLD_", "2147483648")
ENV.setdefault("MALLOC_MMAP_THRESHOLD_", "1073741824")
ENV.setdefault("MALLOC_TOP_PAD_", "268435456")


class HarnessError(Exception):
    pass


def log(*a):
    print(*a, flush=True)


# ----------------------------------------------------------------------------
# plans: which engine runs, with which sub-property name, how much
# ----------------------------------------------------------------------------
# each part: (engine, sub-property, {tier: {"count": workloads, "scheds": schedules per workload}})
PLANS = {
    "C05": [("parsim", "C05", {"quick": dict(count=5000, scheds=20), "thorough": dict(count=60000, scheds=40)}),
            ("parsim-checked", "C05", {"quick": dict(count=800, scheds=8), "thorough": dict(count=10000, scheds=16)}),
            ("parsim-exp", "C05", {"thorough": dict(count=6000, scheds=12)}),
            ("parsim-min", "C05", {"quick": dict(count=600, scheds=6), "thorough": dict(count=6000, scheds=12)}),
            ("miri", "C05E3", {"thorough": dict(count=32)})],
    "C03": [("parsim", "C03", {"quick": dict(count=5000, scheds=12), "thorough": dict(count=50000, scheds=30)}),
            ("parsim-checked", "C03", {"quick": dict(count=800, scheds=6), "thorough": dict(count=8000, scheds=12)}),
            ("parsim-min", "C03", {"quick": dict(count=600, scheds=6), "thorough": dict(count=6000, scheds=12)})],
    "C06": [
        ("parsim", "C06", {"quick": dict(count=6000, scheds=16), "thorough": dict(count=60000, scheds=32)}),
        ("parsim", "C06N", {"quick": dict(count=1000, scheds=10), "thorough": dict(count=10000, scheds=20)}),
        ("parsim-checked", "C06", {"quick": dict(count=800, scheds=8), "thorough": dict(count=10000, scheds=16)}),
        ("parsim-min", "C06", {"quick": dict(count=800, scheds=8), "thorough": dict(count=8000, scheds=16)}),
        ("miri", "C06E3", {"thorough": dict(count=32)}),
    ],
    "C10": [
        ("seamsim", "C10", {"quick": dict(count=8000), "thorough": dict(count=400000)}),
        ("parsim", "C10P", {"quick": dict(count=1500, scheds=6), "thorough": dict(count=10000, scheds=12)}),
        ("parsim-checked", "C10P", {"quick": dict(count=400, scheds=4), "thorough": dict(count=3000, scheds=8)}),
        ("seamsim-exp", "C10", {"thorough": dict(count=40000)}),
    ],
    "C11": [("seamsim", "C11", {"quick": dict(count=100000), "thorough": dict(count=2000000)}),
            ("seamsim-checked", "C11", {"quick": dict(count=20000), "thorough": dict(count=300000)})],
    "C12": [("seamsim", "C12", {"quick": dict(count=96), "thorough": dict(count=400)}),
            ("seamsim-checked", "C12", {"quick": dict(count=24), "thorough": dict(count=100)})],
    "C14": [
        ("seamsim", "C14", {"quick": dict(count=100000), "thorough": dict(count=600000)}),
        ("parsim", "C14P", {"quick": dict(count=2000, scheds=6), "thorough": dict(count=20000, scheds=12)}),
        ("parsim-checked", "C14P", {"quick": dict(count=600, scheds=4), "thorough": dict(count=5000, scheds=8)}),
        ("parsim-min", "C14P", {"quick": dict(count=300, scheds=4), "thorough": dict(count=3000, scheds=8)}),
        ("seamsim-checked", "C14", {"quick": dict(count=20000), "thorough": dict(count=200000)}),
    ],
    "C16": [("seamsim", "C16", {"quick": dict(count=48), "thorough": dict(count=120)}),
            ("seamsim-checked", "C16", {"quick": dict(count=24), "thorough": dict(count=60)})],
    "C17": [
        ("seamsim", "C17", {"quick": dict(count=100000), "thorough": dict(count=400000)}),
        ("parsim", "C17P", {"quick": dict(count=4000, scheds=8), "thorough": dict(count=30000, scheds=16)}),
        ("parsim-checked", "C17P", {"quick": dict(count=800, scheds=4), "thorough": dict(count=6000, scheds=8)}),
        ("parsim-min", "C17P", {"quick": dict(count=400, scheds=4), "thorough": dict(count=3000, scheds=8)}),
        ("seamsim-checked", "C17", {"quick": dict(count=20000), "thorough": dict(count=200000)}),
    ],
}

LEVEL = {
    "C03": "exploration", "C05": "exploration", "C06": "exploration", "C10": "exploration",
    "C11": "exploration", "C12": "fault_enumeration", "C14": "exploration", "C16": "fault_enumeration",
    "C17": "exploration",
}


# ----------------------------------------------------------------------------
# building
# ----------------------------------------------------------------------------
def run_cargo(cwd, extra, what, target=None):
    t0 = time.time()
    env = dict(ENV, CARGO_TARGET_DIR=target or (TGT_PARSIM if cwd.endswith("parsim") else TGT_SEAMSIM))
    p = subprocess.run(["cargo", "build", "--offline"] + extra, cwd=cwd, env=env,
                       stdout=subprocess.PIPE, stderr=subprocess.STDOUT, text=True)
    if p.returncode != 0:
        sys.stderr.write(p.stdout[-6000:])
        raise HarnessError("build of %s failed" % what)
    return time.time() - t0


def build(engines):
    """(Re)builds the engines from REPO's working tree."""
    for shuttle in (True, False):
        gen_shadow.generate(REPO, shuttle=shuttle)
    took = {}
    if "parsim" in engines:
        took["parsim"] = run_cargo(os.path.join(HERE, "parsim"), ["--release"], "parsim")
    if "seamsim" in engines:
        took["seamsim"] = run_cargo(os.path.join(HERE, "seamsim"), ["--release"], "seamsim")
    if "seamsim-checked" in engines:
        took["seamsim-checked"] = run_cargo(os.path.join(HERE, "seamsim"), ["--profile", "checked"], "seamsim (checked profile)")
    if "parsim-checked" in engines:
        took["parsim-checked"] = run_cargo(os.path.join(HERE, "parsim"), ["--profile", "checked"], "parsim (checked profile)")
    if "parsim-exp" in engines:
        took["parsim-exp"] = run_cargo(os.path.join(HERE, "parsim"), ["--release", "--features", "experimental"], "parsim (experimental feature)", TGT_PARSIM_EXP)
    if "parsim-min" in engines:
        took["parsim-min"] = run_cargo(os.path.join(HERE, "parsim"), ["--release", "--no-default-features"], "parsim (library with the par feature only)", TGT_PARSIM_MIN)
    if "seamsim-exp" in engines:
        took["seamsim-exp"] = run_cargo(os.path.join(HERE, "seamsim"), ["--release", "--features", "experimental"], "seamsim (experimental feature)", TGT_SEAMSIM_EXP)
    return took


def engine_bin(engine):
    return {"parsim": PARSIM, "seamsim": SEAMSIM, "seamsim-checked": SEAMSIM_DBG, "parsim-exp": PARSIM_EXP, "seamsim-exp": SEAMSIM_EXP, "parsim-checked": PARSIM_DBG, "parsim-min": PARSIM_MIN}[engine]


# ----------------------------------------------------------------------------
# known findings
# ----------------------------------------------------------------------------
def load_known():
    if not os.path.exists(KNOWN):
        return []
    return json.load(open(KNOWN)).get("findings", [])


def match_known(prop, sig, known):
    """A finding matches when property, class and site agree (whole signature)."""
    for k in known:
        if k.get("status") != "known" or k.get("property") != prop:
            continue
        ks = k.get("signature", {})
        if all(sig.get(f) == ks.get(f) for f in ks):
            return k
    return None


# ----------------------------------------------------------------------------
# running children
# ----------------------------------------------------------------------------
def parse_pairs(out):
    """All (candidate path, result) pairs a child printed, plus the last bare RESULT."""
    pairs = []
    last = None
    cand = None
    for ln in out.splitlines():
        if ln.startswith("CANDIDATE "):
            cand = ln[10:].strip()
        elif ln.startswith("RESULT "):
            try:
                res = json.loads(ln[7:])
            except ValueError:
                continue
            last = res
            if cand:
                pairs.append((cand, res))
                cand = None
    return pairs, last


def parse_result_line(out):
    pairs, last = parse_pairs(out)
    if pairs:
        return pairs[-1][1], pairs[-1][0]
    return last, None


def child_cmd(engine, sub, tier, seed, child, nchild, frm, count, scheds, out, replay_out, digests=None):
    cmd = [engine_bin(engine), "run", "--prop", sub, "--tier", tier, "--seed", str(seed),
           "--child", str(child), "--nchild", str(nchild), "--from", str(frm), "--count", str(count),
           "--out", out, "--replay-out", replay_out]
    if scheds is not None:
        cmd += ["--scheds", str(scheds)]
    if digests:
        cmd += ["--digests", digests]
    if engine.startswith("seamsim") or engine.startswith("parsim"):
        cmd += ["--hang-s", str(HANG_S)]
    return cmd


HANG_S = int(os.environ.get("VERIF_HANG_S", "120"))


def locate_hang(prop, engine, sub, tier, seed, c, nchild, count, child_stdout):
    """A seamsim child ended with 'STALLED n' (its watchdog: no new case for HANG_S seconds; real code on
    real threads, so a case that does not return is the library's doing). Runs the child again with the
    flight recorder on from case n-1, takes the case that was in flight when it stalled again, and confirms
    it alone in a fresh process (`seamsim exec` reports class `hang` when the case does not return in time).
    Returns a candidate or None."""
    m = re.search(r"STALLED (\d+)", child_stdout)
    n = int(m.group(1)) if m else 0
    trace = tmp_path("hang-trace-%s-%d" % (sub, c))
    if os.path.exists(trace):
        os.remove(trace)
    out = tmp_path("hang-sum-%s-%d" % (sub, c))
    rp = os.path.join(REPLAYS, "%s-%s-seed%d-hang-i{i}-s{s}.cand.json" % (prop, sub, seed))
    cmd = child_cmd(engine, sub, tier, seed, c, nchild, 0, count, None, out, rp, None) + ["--trace-from", str(max(0, n - 2)), "--trace-out", trace]
    try:
        p = subprocess.run(cmd, stdout=subprocess.PIPE, stderr=subprocess.PIPE, text=True, env=ENV, timeout=3600)
    except subprocess.TimeoutExpired:
        return None
    if p.returncode != 4 or not os.path.exists(trace):
        return None
    rec = json.load(open(trace))
    rf = {"property": prop, "engine": engine, "verif_seed": seed, "run_index": rec.get("n", 0), "tier": tier,
          "profile": "checked" if engine.endswith("checked") else "release", "case": rec["case"],
          "observed": {"class": "hang", "site": "", "message": "", "detail": "no new case for %d s after this one began" % HANG_S},
          "minimised": False, "notes": ["found by the watchdog of child %d of %d" % (c, nchild)],
          "logger": c % 2 == 1, "bystanders": (c // 2) % 2 == 1}
    path = os.path.join(REPLAYS, "%s-%s-seed%d-hang-c%d.cand.json" % (prop, sub, seed, c))
    json.dump(rf, open(path, "w"), indent=1)
    rc, res, _ = exec_file(engine, path, ["--replay-out", tmp_path("hang-out")], timeout=HANG_S * 3)
    if rc == 3 and res.get("violation"):
        return {"path": path, "result": res, "file": rf, "engine": engine, "sub": sub}
    return None


def run_part(prop, engine, sub, tier, seed, params, nchild=None, max_candidates=6, digests_dir=None):
    """Runs one part over `nchild` processes. Returns (summaries, candidates)."""
    nchild = nchild or NPROC
    pdir = os.path.join(PARTIAL, "%s-%s-%s" % (prop, sub, engine))
    shutil.rmtree(pdir, ignore_errors=True)
    os.makedirs(pdir, exist_ok=True)
    os.makedirs(REPLAYS, exist_ok=True)
    count = params["count"]
    scheds = params.get("scheds")
    procs = {}
    seg = {}
    summaries = []
    candidates = []

    def start(c, frm):
        k = seg.get(c, 0)
        seg[c] = k + 1
        out = os.path.join(pdir, "sum-%d-%d.json" % (c, k))
        rp = os.path.join(REPLAYS, "%s-%s-seed%d-i{i}-s{s}.cand.json" % (prop, sub, seed))
        dg = os.path.join(digests_dir, "dig-%s-%d-%d.txt" % (sub, c, k)) if digests_dir else None
        cmd = child_cmd(engine, sub, tier, seed, c, nchild, frm, count, scheds, out, rp, dg)
        procs[c] = (subprocess.Popen(cmd, stdout=subprocess.PIPE, stderr=subprocess.PIPE, text=True, env=ENV), out, frm)

    for c in range(nchild):
        start(c, 0)
    while procs:
        for c in list(procs):
            p, out, frm = procs[c]
            try:
                so, se = p.communicate(timeout=0.2)
            except subprocess.TimeoutExpired:
                continue
            del procs[c]
            rc = p.returncode
            res, cand = parse_result_line(so)
            if rc == 0:
                if not os.path.exists(out):
                    raise HarnessError("child %d of %s/%s wrote no summary" % (c, prop, sub))
                summaries.append(json.load(open(out)))
            elif rc == 3 and cand and res:
                pairs, _ = parse_pairs(so)
                for cpath, cres in pairs:
                    rf = json.load(open(cpath))
                    candidates.append({"path": cpath, "result": cres, "file": rf, "engine": engine, "sub": sub})
                # an E2 child writes its (complete) coverage before it exits
                if os.path.exists(out):
                    summaries.append(json.load(open(out)))
                nxt = rf.get("run_index", count) + 1
                if len(candidates) < max_candidates and nxt < count and engine.startswith("parsim"):
                    start(c, nxt)
            elif rc == 4 and engine.startswith("seamsim") and "STALLED" in so:
                # the child's watchdog saw no new case for HANG_S seconds: find the case, confirm it alone
                if any(x["result"].get("class") == "hang" for x in candidates):
                    continue  # one located hang per part is enough (each costs three time limits)
                cand_h = locate_hang(prop, engine, sub, tier, seed, c, nchild, count, so)
                if cand_h is None:
                    for q, _, _ in procs.values():
                        q.kill()
                    raise HarnessError("child %d of %s/%s stalled (no new case for %d s) but the stall did not reproduce" % (c, prop, sub, HANG_S))
                candidates.append(cand_h)
            else:
                for q, _, _ in procs.values():
                    q.kill()
                msg = (res or {}).get("harness_error") or se.strip()[-2000:] or so.strip()[-2000:]
                raise HarnessError("child %d of %s/%s exited with %s: %s" % (c, prop, sub, rc, msg))
    return summaries, candidates


# ----------------------------------------------------------------------------
# E3: the shipped multi-thread encoder (real threads, real crossbeam-channel) under Miri's seeded scheduler
# ----------------------------------------------------------------------------
MIRI_DIR = os.path.join(HERE, "miri")
TGT_MIRI = os.path.join(HERE, "target-miri" + TGT_SUFFIX)
MIRI_SCENARIOS = {
    # (workers, frames, channels, fault, k)
    "C05E3": [(1, 3, 1, "none", 0), (2, 4, 1, "none", 0), (3, 5, 2, "none", 0), (2, 7, 1, "none", 0), (4, 2, 1, "none", 0), (2, 0, 1, "none", 0)],
    "C06E3": [(2, 4, 1, "readerr", 0), (2, 4, 1, "readerr", 2), (2, 4, 1, "readerr", 4), (3, 6, 2, "readerr", 5),
              (2, 4, 1, "oor", 0), (2, 5, 1, "oor", 3), (1, 3, 1, "oor", 1), (3, 7, 1, "oor", 6)],
}


def miri_cmd(sc, flags):
    env = dict(ENV, MIRIFLAGS=flags, CARGO_TARGET_DIR=TGT_MIRI)
    cmd = ["cargo", "+nightly", "miri", "run", "--offline", "-q", "--"] + [str(x) for x in sc]
    return cmd, env


def miri_classify(out):
    if "MIRISIM-DISAGREE" in out:
        return "par_vs_single_disagree_real_threads"
    for key, cls in (("deadlock", "deadlock_real_threads"), ("terminated without waiting for all remaining threads", "thread_leak_real_threads"),
                     ("Data race", "data_race"), ("Undefined Behavior", "undefined_behaviour"), ("panicked at", "panic_real_threads")):
        if key in out:
            return cls
    return None


def run_miri(prop, sub, seed, params):
    """Returns (summary, candidates)."""
    lock = os.path.join(MIRI_DIR, "Cargo.lock")
    if not os.path.exists(lock):
        shutil.copy(os.path.join(REPO, "Cargo.lock"), lock)
    nseeds = params["count"]
    lo = (seed * 1000) % 1000000
    t0 = time.time()
    agree = 0
    cands = []
    hist = {}
    for sc in MIRI_SCENARIOS[sub]:
        cmd, env = miri_cmd(sc, "-Zmiri-many-seeds=%d..%d -Zmiri-preemption-rate=0.1" % (lo, lo + nseeds))
        p = subprocess.run(cmd, cwd=MIRI_DIR, env=env, stdout=subprocess.PIPE, stderr=subprocess.STDOUT, text=True)
        n = p.stdout.count("MIRISIM-AGREE")
        agree += n
        hist["%s_k%d_w%d" % (sc[3], sc[4], sc[0])] = n
        if p.returncode == 0 and n == nseeds:
            continue
        cls = miri_classify(p.stdout)
        if cls is None:
            raise HarnessError("miri run failed without a recognised report: %s" % p.stdout[-1500:])
        # find one failing seed so that the replay is a single deterministic execution
        bad = None
        for ms in range(lo, lo + nseeds):
            c2, e2 = miri_cmd(sc, "-Zmiri-seed=%d -Zmiri-preemption-rate=0.1" % ms)
            q = subprocess.run(c2, cwd=MIRI_DIR, env=e2, stdout=subprocess.PIPE, stderr=subprocess.STDOUT, text=True)
            if miri_classify(q.stdout) == cls:
                bad = ms
                break
        if bad is None:
            raise HarnessError("miri failure (%s) did not reproduce with a single seed" % cls)
        rf = {"property": prop, "engine": "miri", "verif_seed": seed, "scenario": list(sc), "miri_seed": bad,
              "observed": {"class": cls, "site": sc[3], "message": "", "detail": q.stdout[-800:]}, "minimised": True}
        path = os.path.join(REPLAYS, "%s-%s-miri-%s-k%d-seed%d.cand.json" % (prop, sub, sc[3], sc[4], bad))
        os.makedirs(REPLAYS, exist_ok=True)
        json.dump(rf, open(path, "w"), indent=1)
        cands.append({"path": path, "result": {"class": cls, "site": sc[3], "detail": "scenario %s, miri seed %d" % (list(sc), bad)},
                      "file": rf, "engine": "miri", "sub": sub})
    execs = len(MIRI_SCENARIOS[sub]) * nseeds
    summ = {"executions": execs, "cases": execs, "distinct_nontrivial": agree, "wall_s": time.time() - t0,
            "outcomes": dict(hist), "rule": "E3 cross-check: the shipped guard-off build (real std threads, real crossbeam-channel) runs %d tiny "
            "scenarios (workers, frames, channels, fault, k) under Miri's seeded scheduler, %d seeds each (preemption rate 0.1); every "
            "execution compares multi-thread with single-thread results; Miri itself reports deadlocks, leaked threads, data races. "
            "distinct_nontrivial = executions that ran to completion and agreed (each has its own scheduler seed)." % (len(MIRI_SCENARIOS[sub]), nseeds),
            "samples": [{"scenario": list(MIRI_SCENARIOS[sub][0]), "miri_seeds": [lo, lo + nseeds]}]}
    return summ, cands


def exec_miri_file(path):
    rf = json.load(open(path))
    c2, e2 = miri_cmd(rf["scenario"], "-Zmiri-seed=%d -Zmiri-preemption-rate=0.1" % rf["miri_seed"])
    q = subprocess.run(c2, cwd=MIRI_DIR, env=e2, stdout=subprocess.PIPE, stderr=subprocess.STDOUT, text=True)
    cls = miri_classify(q.stdout)
    if cls:
        return 3, {"class": cls, "site": rf["scenario"][3], "detail": q.stdout[-600:]}, None
    if q.returncode != 0:
        return 2, {"harness_error": q.stdout[-800:]}, None
    return 0, {}, None


# ----------------------------------------------------------------------------
# signatures, replay, minimisation
# ----------------------------------------------------------------------------
def sig_of(res):
    return {"class": res.get("class", ""), "site": res.get("site", "")}


def exec_file(engine, path, extra=(), timeout=600):
    if engine == "miri":
        return exec_miri_file(path)
    cmd = [engine_bin(engine), "exec", "--file", path] + list(extra)
    if engine.startswith("seamsim") or engine.startswith("parsim"):
        cmd += ["--hang-s", str(HANG_S)]
        timeout = max(timeout, HANG_S * 3)
    try:
        p = subprocess.run(cmd, stdout=subprocess.PIPE, stderr=subprocess.PIPE, text=True, env=ENV, timeout=timeout)
    except subprocess.TimeoutExpired:
        return 2, {"harness_error": "timeout"}, None
    res, cand = parse_result_line(p.stdout)
    if p.returncode not in (0, 3):
        res = res or {"harness_error": p.stderr.strip()[-1000:]}
    return p.returncode, res or {}, cand


def tmp_path(tag):
    d = os.path.join(HERE, "tmp")
    os.makedirs(d, exist_ok=True)
    return os.path.join(d, "%s-%d.json" % (tag, os.getpid()))


def still_fails(engine, rf, sig, search=0, search_seed=1):
    """Runs `rf` (dict) in a fresh process; returns the resulting replay dict if the same
    violation class recurs, else None."""
    tin = tmp_path("min-in")
    tout = tmp_path("min-out")
    json.dump(rf, open(tin, "w"))
    if os.path.exists(tout):
        os.remove(tout)
    extra = ["--replay-out", tout]
    if search:
        extra += ["--search", str(search), "--search-seed", str(search_seed)]
    rc, res, cand = exec_file(engine, tin, extra)
    if rc == 3 and sig_of(res) == sig and os.path.exists(tout):
        return json.load(open(tout))
    return None


def e1_workload_steps(w):
    """Candidate simplifications of a parsim workload, most aggressive first."""
    out = []

    def mod(**kw):
        n = json.loads(json.dumps(w))
        n.update(kw)
        return n

    if w["nfull"] > 0:
        out.append(("nfull/2", mod(nfull=w["nfull"] // 2)))
        out.append(("nfull-1", mod(nfull=w["nfull"] - 1)))
    if w["residue"] > 0:
        out.append(("residue=0", mod(residue=0)))
    if w["channels"] > 1:
        out.append(("channels=1", mod(channels=1, sig_kinds=w["sig_kinds"][:1])))
        out.append(("channels-1", mod(channels=w["channels"] - 1, sig_kinds=w["sig_kinds"][:w["channels"] - 1])))
    if w["block"] > 32:
        out.append(("block=32", mod(block=32, residue=min(w["residue"], 31))))
    if w.get("workers") and w["workers"] > 1:
        out.append(("workers=1", mod(workers=1)))
        out.append(("workers-1", mod(workers=w["workers"] - 1)))
    if w.get("env_workers") is not None and w.get("workers") is not None:
        out.append(("env unset", mod(env_workers=None)))
    if w["hashq_cap"] != 16:
        out.append(("hashq_cap=16", mod(hashq_cap=16)))
    if w["delivery"] != 0:
        out.append(("delivery=ints", mod(delivery=0)))
    if w["short_reads"]:
        out.append(("short_reads=off", mod(short_reads=False)))
    if w["eof_style"] != 0:
        out.append(("eof_style=0", mod(eof_style=0)))
    if w["len_hint"]:
        out.append(("len_hint=off", mod(len_hint=False)))
    if w["bits"] != 16:
        out.append(("bits=16", mod(bits=16)))
    if w["rate"] != 44100:
        out.append(("rate=44100", mod(rate=44100)))
    if any(k != 0 for k in w["sig_kinds"]):
        out.append(("silence", mod(sig_kinds=[0] * len(w["sig_kinds"]))))
    default_cfg = {"use_constant": True, "use_fixed": True, "use_lpc": True, "use_leftside": True,
                   "use_rightside": True, "use_midside": True, "fixed_max_order": 4,
                   "approx_ent_partitions": None, "rice_max": 14, "lpc_order": 10, "precision": 15,
                   "tukey_alpha_bits": w["cfg"].get("tukey_alpha_bits")}
    cheap_cfg = dict(default_cfg, use_lpc=False, tukey_alpha_bits=None)
    if w["cfg"] != cheap_cfg:
        out.append(("cfg=cheap", mod(cfg=cheap_cfg)))
    if len(w["faults"]) > 1:
        for i in range(len(w["faults"])):
            out.append(("drop fault %d" % i, mod(faults=[f for j, f in enumerate(w["faults"]) if j != i])))
    for i, f in enumerate(w["faults"]):
        if f.get("k", 0) > 0:
            for nk in (0, f["k"] // 2, f["k"] - 1):
                if nk < f["k"]:
                    fs = json.loads(json.dumps(w["faults"]))
                    fs[i]["k"] = nk
                    out.append(("fault %d k=%d" % (i, nk), mod(faults=fs)))
        if f.get("kind") == "ReadError" and f.get("after_fill"):
            fs = json.loads(json.dumps(w["faults"]))
            fs[i]["after_fill"] = False
            out.append(("fault %d plain" % i, mod(faults=fs)))
    return out


def ddmin(items, test):
    """Classic ddmin: returns a 1-minimal sublist for which test(sublist) is truthy."""
    n = 2
    cur = list(items)
    while len(cur) >= 2:
        chunk = max(1, len(cur) // n)
        subsets = [cur[i:i + chunk] for i in range(0, len(cur), chunk)]
        reduced = False
        for i in range(len(subsets)):
            comp = [x for j, s in enumerate(subsets) if j != i for x in s]
            if test(comp):
                cur = comp
                n = max(n - 1, 2)
                reduced = True
                break
        if not reduced:
            if n >= len(cur):
                break
            n = min(len(cur), n * 2)
    if len(cur) == 1 and test([]):
        cur = []
    return cur


def minimise_parsim(cand, budget_s=90):
    eng = cand["engine"]
    rf = cand["file"]
    sig = sig_of(cand["result"])
    t0 = time.time()
    notes = []
    # 1. workload shrinking (re-searching schedules for every candidate step)
    progress = True
    while progress and time.time() - t0 < budget_s:
        progress = False
        for name, w2 in e1_workload_steps(rf["workload"]):
            if time.time() - t0 > budget_s:
                break
            trial = dict(rf, workload=w2)
            trial["schedule"] = dict(rf["schedule"], choices=[], deviations=[])
            got = still_fails(eng, trial, sig, search=300)
            if got:
                rf = got
                notes.append(name)
                progress = True
                break
    # 2. schedule shrinking: ddmin on the deviations from the default policy
    devs = [list(d) for d in rf["schedule"].get("deviations", [])]

    def with_devs(ds):
        t = dict(rf)
        t["schedule"] = {"policy": {"name": "Deviations", "dev": ds}, "seed": rf["schedule"]["seed"], "choices": [], "deviations": []}
        return t

    full = still_fails(eng, with_devs(devs), sig)
    if full is not None:
        def test(ds):
            if time.time() - t0 > budget_s * 2:
                return False
            return still_fails(eng, with_devs(ds), sig) is not None
        small = ddmin(devs, test)
        got = still_fails(eng, with_devs(small), sig)
        if got:
            notes.append("schedule: %d -> %d deviations" % (len(devs), len(small)))
            got["schedule"]["policy"] = {"name": "Deviations", "dev": small}
            rf = got
    rf["minimised"] = True
    rf["notes"] = notes
    return rf


def minimise_seamsim(cand, budget_s=120):
    """E2 shrinks in process: `seamsim exec --minimise`."""
    tout = tmp_path("min-out")
    if os.path.exists(tout):
        os.remove(tout)
    rc, res, _ = exec_file(cand["engine"], cand["path"], ["--minimise", "--replay-out", tout], timeout=budget_s * 3)
    if rc == 3 and os.path.exists(tout) and sig_of(res) == sig_of(cand["result"]):
        rf = json.load(open(tout))
        rf["minimised"] = True
        return rf
    return cand["file"]


def finalise_candidate(prop, cand, idx):
    """Minimises, replays in a fresh process, writes the final replay file. Returns its path."""
    engine = cand["engine"]
    try:
        # a case that does not return costs the whole time limit per trial: it is reported as recorded
        no_shrink = engine == "miri" or cand["result"].get("class") == "hang"
        rf = cand["file"] if no_shrink else (minimise_parsim(cand) if engine.startswith("parsim") else minimise_seamsim(cand))
    except Exception as e:  # minimisation is best effort; the unminimised file is still a replay
        rf = cand["file"]
        rf.setdefault("notes", []).append("minimisation failed: %r" % (e,))
    sig = sig_of(cand["result"])
    final = os.path.join(REPLAYS, "%s-seed%s-%d.json" % (prop, rf.get("verif_seed", 0), idx))
    rf["property"] = prop if rf.get("property") in (prop, None) else rf["property"]
    json.dump(rf, open(final, "w"), indent=1)
    rc, res, _ = exec_file(engine, final, ["--replay-out", tmp_path("fin-out")])
    if not (rc == 3 and sig_of(res) == sig):
        # the minimised file does not reproduce: fall back to the recorded candidate
        json.dump(cand["file"], open(final, "w"), indent=1)
        rc, res, _ = exec_file(engine, final, ["--replay-out", tmp_path("fin-out")])
        if not (rc == 3 and sig_of(res) == sig):
            raise HarnessError("candidate %s does not replay (rc=%s, %s)" % (cand["path"], rc, res))
    return final


# ----------------------------------------------------------------------------
# evidence
# ----------------------------------------------------------------------------
SUM_KEYS = ["workloads", "executions", "par_executions", "nontrivial_runs", "distinct", "distinct_nontrivial",
            "out_of_order_runs", "blocking_runs", "steps", "events", "hashq_full_runs", "fault_free_runs",
            "order_divergent", "ok_results", "err_results", "skipped_single_err", "skipped_oversize_output",
            "cases", "seam_ops", "panics_caught", "baseline_rejected"]
MAX_KEYS = ["max_hash_lag", "max_tasks", "budget_max_ratio", "wall_s"]
SET_KEYS = ["completion_orders", "states", "transitions"]
HIST_KEYS = ["policies", "ooo_by_policy", "faults_fired", "workers_hist", "delivery_hist", "bits_hist", "fault_kinds", "probes",
             "classes", "outcomes", "ops_hist"]
VEC_MAX = ["chan_max_len"]
VEC_SUM = ["blocking_sends", "blocking_recvs"]


def merge(summaries):
    m = {}
    for k in SUM_KEYS:
        vals = [s[k] for s in summaries if k in s]
        if vals:
            m[k] = sum(vals)
    for k in MAX_KEYS:
        vals = [s[k] for s in summaries if k in s]
        if vals:
            m[k] = max(vals)
    for k in SET_KEYS:
        st = set()
        seen = False
        for s in summaries:
            if k in s:
                seen = True
                st.update(s[k])
        if seen:
            m[k] = len(st)
    for k in HIST_KEYS:
        h = {}
        for s in summaries:
            for kk, v in s.get(k, {}).items():
                h[kk] = h.get(kk, 0) + v
        if h:
            m[k] = dict(sorted(h.items()))
    for k in VEC_MAX + VEC_SUM:
        vec = []
        for s in summaries:
            for i, v in enumerate(s.get(k, [])):
                while len(vec) <= i:
                    vec.append(0)
                vec[i] = max(vec[i], v) if k in VEC_MAX else vec[i] + v
        if vec:
            m[k] = vec
    if any("digest" in s for s in summaries):
        m["digest"] = "%016x" % (sum(s.get("digest", 0) for s in summaries) % (1 << 64))
    samples = []
    for s in sorted(summaries, key=lambda s: s.get("child", 0)):
        for x in s.get("samples", []):
            if len(samples) < 4:
                samples.append(x)
    m["samples"] = samples
    return m


RULES = {
    "parsim": "workloads are generated from VERIF_SEED (format, block size, length, signal, configuration, worker count / "
              "FLACENC_WORKERS, delivery script, fault plan, hashing-queue capacity knob); every workload is executed under "
              "N schedules drawn from its own PRNG (policies uniform/sticky/pct/starve/round-robin). A case = (workload, schedule); "
              "distinct = distinct (workload hash, schedule hash); non-trivial = the execution had at least one out-of-order frame "
              "completion or at least one blocking channel operation.",
}

REAL = ["flacenc (whole library: par.rs feeder/workers/hashing thread, coding, source, bitsink, component writer) built from /repo's working tree"]
STUBS_E1 = ["std::thread / std::sync::Mutex -> shuttle 0.9.3 (scheduler = our seeded Scheduler)",
            "crossbeam-channel bounded MPMC -> model on shuttle Mutex+Condvar in src/verif.rs (cfg flacenc_verif)",
            "sample source -> SimSource (scripted peer)", "thread_local! in reusable! -> shuttle::thread_local! (per simulated thread)"]
STUBS_E2 = ["sample source -> SimSource / scripted fills", "bit sink -> FaultSink / RecSink (user-defined sinks)",
            "storage between writer and parser -> FaultyStore (bit flips, bursts, truncation)"]


def write_evidence(prop, tier, seed, parts, wall, violations, known_matched, build_s, cand_samples=()):
    os.makedirs(EVIDENCE, exist_ok=True)
    cov = {"parts": {}}
    evaluations = 0
    distinct_nt = 0
    samples = []
    rules = []
    logical = 0
    exhaustive = None
    for (engine, sub), merged in parts.items():
        cov["parts"]["%s/%s" % (engine, sub)] = {k: v for k, v in merged.items() if k != "samples"}
        evaluations += merged.get("executions", merged.get("cases", 0))
        distinct_nt += merged.get("distinct_nontrivial", 0)
        logical += merged.get("steps", 0) + merged.get("seam_ops", 0)
        for x in merged.get("samples", []):
            if len(samples) < 6:
                samples.append({"part": "%s/%s" % (engine, sub), "case": x})
        rules.append("[%s/%s] %s" % (engine, sub, merged.get("rule") or RULES.get(engine.replace("-exp", "").replace("-checked", ""), "")))
        if "exhaustive" in merged:
            exhaustive = merged["exhaustive"] if exhaustive is None else (exhaustive and merged["exhaustive"])
    for x in cand_samples:
        if len(samples) < 6:
            samples.append({"part": "violating case", "case": x})
    cov["evaluations"] = evaluations
    cov["distinct_nontrivial"] = distinct_nt
    cov["rule"] = " ".join(rules)
    cov["samples"] = samples
    if exhaustive is not None:
        cov["exhaustive"] = bool(exhaustive)
    cov["logical_time"] = {"unit": "scheduling decisions (parsim) + seam operations (seamsim); the library has no clock or timer", "total": logical}
    cov["runs_per_hour"] = int(evaluations / wall * 3600) if wall > 0 else 0
    cov["real_components"] = REAL
    engines = {e for (e, _) in parts}
    if any(e.startswith("parsim") for e in engines) and tier == "thorough":
        conf = chan_conformance(12000)
        cov["channel_model_conformance"] = {"against": "crossbeam-channel (real)", "sequences": conf["sequences"], "operations": conf["operations"], "differences": 0}
    if "miri" in engines:
        cov["miri_cross_check"] = "shipped guard-off build under Miri (real std threads, real crossbeam-channel): no stub"
    cov["stub_components"] = (STUBS_E1 if any(e.startswith("parsim") for e in engines) else []) + (STUBS_E2 if any(e.startswith("seamsim") for e in engines) else [])
    cov["known_findings_matched"] = known_matched
    # aggregated: which fault kinds actually fired in this run (not merely configured), per part
    fk = {}
    for (engine, sub), merged in parts.items():
        for src in ("faults_fired", "fault_kinds"):
            for k, v in merged.get(src, {}).items():
                fk[k] = fk.get(k, 0) + v
    cov["fault_kinds_fired"] = dict(sorted(fk.items()))
    # last recorded self-checks of the machinery (committed records, not re-run here)
    for name in ("determinism", "mutants"):
        rp = os.path.join(HERE, "selfcheck", name + ".json")
        if os.path.exists(rp):
            try:
                r = json.load(open(rp))
                if name == "determinism":
                    cov["determinism_selfcheck"] = {"record": "selfcheck/determinism.json", "parts": len(r.get("parts", [])),
                                                    "divergences": r.get("divergences"), "at": r.get("started")}
                else:
                    res = [x for x in r.get("results", []) if x.get("mutant")]
                    cov["mutants_selfcheck"] = {"record": "selfcheck/mutants.json", "mutants": len(res),
                                                "caught": sum(1 for x in res if x.get("caught")), "at": r.get("at"),
                                                "for_this_property": [x["mutant"] for x in res if x.get("property") == prop and x.get("caught")]}
            except (ValueError, KeyError):
                pass
    # independently written seeded changes for this property (committed records, not re-run here)
    sdir = os.path.join(HERE, "seeded")
    if os.path.isdir(sdir):
        ids = sorted(d for d in os.listdir(sdir) if d.startswith(prop + "-") and os.path.exists(os.path.join(sdir, d, "meta.json")))
        regs = sorted((f for f in os.listdir(sdir) if f.startswith("REGRESSION-")), key=lambda f: os.path.getmtime(os.path.join(sdir, f)))
        caught = None
        if regs:
            txt = open(os.path.join(sdir, regs[-1])).read()
            caught = sum(1 for i in ids if ("('%s'," % i) in txt and "CAUGHT" in txt.split("('%s'," % i, 1)[1].split("\n", 1)[0])
        cov["seeded_changes"] = {"written_for_this_property": len(ids), "caught_in_last_recorded_regression": caught,
                                 "regression_record": ("seeded/" + regs[-1]) if regs else None}
    cov["build_s"] = build_s
    cov["repo_head"] = subprocess.run(["git", "-C", REPO, "rev-parse", "--short", "HEAD"], stdout=subprocess.PIPE, text=True).stdout.strip()
    cov["repo_dirty"] = bool(subprocess.run(["git", "-C", REPO, "status", "--porcelain", "--untracked-files=no"], stdout=subprocess.PIPE, text=True).stdout.strip())
    ev = {
        "property_id": prop,
        "tier": tier,
        "seed": seed,
        "level": LEVEL[prop],
        "coverage": cov,
        "assumptions": [
            "seeded sample of schedules / fault sequences / histories, not a proof",
            "the channel model in src/verif.rs follows crossbeam-channel's bounded MPMC semantics (cross-checked sequentially and by Miri in the thorough tier)",
            "float arithmetic is deterministic for one binary on one machine; bytes are only compared within one build",
        ],
        "wall_s": round(wall, 3),
        "violations": violations,
    }
    path = os.path.join(EVIDENCE, "%s.json" % prop)
    tmp = path + ".tmp"
    json.dump(ev, open(tmp, "w"), indent=1)
    os.replace(tmp, path)
    return path


# ----------------------------------------------------------------------------
# commands
# ----------------------------------------------------------------------------
def engines_for(prop, tier):
    es = set()
    for engine, _, tiers in PLANS[prop]:
        if tier in tiers:
            es.add(engine)
    return es


def cmd_check(prop, tier, seed):
    if prop not in PLANS:
        raise HarnessError("no check for property %s" % prop)
    t0 = time.time()
    build_s = build(engines_for(prop, tier))
    known = load_known()
    parts = {}
    all_cands = []
    for f in os.listdir(REPLAYS) if os.path.isdir(REPLAYS) else []:
        if f.startswith(prop + "-") and f.endswith(".cand.json"):
            os.remove(os.path.join(REPLAYS, f))
    for engine, sub, tiers in PLANS[prop]:
        if tier not in tiers:
            continue
        params = tiers[tier]
        if engine == "miri":
            summ, cands = run_miri(prop, sub, seed, params)
            parts[(engine, sub)] = merge([summ])
            parts[(engine, sub)]["rule"] = summ["rule"]
            all_cands += cands
            continue
        sums, cands = run_part(prop, engine, sub, tier, seed, params)
        parts[(engine, sub)] = merge(sums)
        for s in sums:
            if s.get("rule"):
                parts[(engine, sub)]["rule"] = s["rule"]
            if "exhaustive" in s:
                parts[(engine, sub)]["exhaustive"] = s["exhaustive"] and parts[(engine, sub)].get("exhaustive", True)
        all_cands += cands
    # triage candidates: known findings vs violations (one report per signature)
    seen = {}
    known_matched = []
    violations = []
    # children finish in any order: pick the representative of every signature deterministically
    all_cands.sort(key=lambda c: (c["engine"], c["sub"], c["path"]))
    for cand in all_cands:
        sig = sig_of(cand["result"])
        key = json.dumps(sig, sort_keys=True)
        if key in seen:
            continue
        seen[key] = cand
        k = match_known(prop, sig, known)
        if k:
            known_matched.append(k.get("what", key))
            log("KNOWN-FINDING: property=%s %s" % (prop, k.get("what", key)))
            continue
        final = finalise_candidate(prop, cand, len(violations))
        violations.append((final, cand))
    for cand in all_cands:
        if cand["path"].endswith(".cand.json") and os.path.exists(cand["path"]):
            os.remove(cand["path"])
    wall = time.time() - t0
    write_evidence(prop, tier, seed, parts, wall, len(violations), known_matched, build_s,
                   [{k: c["file"].get(k) for k in ("workload", "history", "fault", "case", "observed") if k in c["file"]} for c in all_cands[:3]])
    for final, cand in violations:
        r = cand["result"]
        log("  class=%s site=%s %s" % (r.get("class"), r.get("site"), (r.get("detail") or r.get("message") or "")[:300]))
        log("VIOLATION property=%s replay=%s" % (prop, final))
    ev = parts
    tot = sum(m.get("executions", m.get("cases", 0)) for m in ev.values())
    log("%s %s: %d cases explored in %.1f s, %d violation(s), %d known finding(s)" % (prop, tier, tot, wall, len(violations), len(known_matched)))
    return 1 if violations else 0


def cmd_replay(path):
    rf = json.load(open(path))
    engine = rf.get("engine", "parsim")
    build({engine} if engine != "miri" else set())
    observed = rf.get("observed") or {}
    rc, res, _ = exec_file(engine, path, ["--replay-out", tmp_path("replay-out")])
    if rc == 3:
        same = res.get("class") == observed.get("class")
        log("  class=%s site=%s %s" % (res.get("class"), res.get("site"), (res.get("detail") or res.get("message") or "")[:400]))
        if not same:
            log("  (recorded class was %s)" % observed.get("class"))
        log("VIOLATION property=%s replay=%s" % ((rf.get("property") or "")[:3], path))
        return 1
    if rc == 0:
        log("replay of %s: no violation on the current tree" % path)
        return 0
    raise HarnessError("replay failed: %s" % (res,))


def chan_conformance(count):
    """The channel model that stands in for crossbeam-channel under the simulator is compared operation by
    operation with the real crossbeam-channel on seeded sequential sequences; a difference is a harness error."""
    p = subprocess.run([PARSIM, "chanconf", "--seed", "1", "--count", str(count)], stdout=subprocess.PIPE, stderr=subprocess.PIPE, text=True, env=ENV)
    res, _ = parse_result_line(p.stdout)
    if p.returncode != 0 or not (res or {}).get("conforms"):
        raise HarnessError("channel model conformance failed: %s" % ((res or {}).get("harness_error") or p.stderr[-500:]))
    return res


def cmd_setup():
    took = build({"parsim", "seamsim", "seamsim-checked", "parsim-checked", "parsim-min"})
    conf = chan_conformance(4000)
    log("setup ok: %s; channel model conforms to crossbeam-channel on %d sequences / %d operations" % (took, conf["sequences"], conf["operations"]))
    return 0


def main(argv):
    if len(argv) < 2:
        log(__doc__)
        return 2
    seed = int(os.environ.get("VERIF_SEED", "1"))
    # One run at a time per copy of /verif: the shadow manifests, the scratch build directories and the scratch
    # evidence directory are shared, so two invocations against different trees (VERIF_REPO) must not overlap.
    # A second invocation waits; invocations started by this one (selfcheck runs checks) inherit the lock.
    if os.environ.get("VERIF_LOCK_HELD") != "1":
        import fcntl
        lock = open(os.path.join(HERE, ".run.lock"), "w")
        fcntl.flock(lock, fcntl.LOCK_EX)
        os.environ["VERIF_LOCK_HELD"] = "1"
        globals()["_RUN_LOCK"] = lock
    try:
        if argv[1] == "setup":
            return cmd_setup()
        if argv[1] == "check":
            prop = argv[2]
            tier = os.environ.get("VERIF_TIER", "quick")
            if "--tier" in argv:
                tier = argv[argv.index("--tier") + 1]
            if tier not in ("quick", "thorough"):
                raise HarnessError("unknown tier %s" % tier)
            return cmd_check(prop, tier, seed)
        if argv[1] == "replay":
            return cmd_replay(argv[2])
        if argv[1] == "selfcheck":
            import selfcheck
            return selfcheck.main(argv[2:], sys.modules[__name__])
        raise HarnessError("unknown command %s" % argv[1])
    except HarnessError as e:
        sys.stderr.write("HARNESS-ERROR: %s\n" % e)
        return 2


if __name__ == "__main__":
    sys.exit(main(sys.argv))
