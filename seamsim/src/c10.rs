//! C10 — encoding is independent of call history and of the calling thread.
//!
//! The simulator owns the *history* and the *identity of the calling thread*:
//! a seeded sequencer hands one operation at a time to one of 1..3 long-lived
//! caller threads (exactly one runs at any instant, so the operation list IS the
//! schedule). Every operation's result is compared with the result of the same
//! operation executed alone on a freshly spawned thread (the reference model is
//! "a thread with no history").
//!
//! Operations: stream-level encode (through a scripted `SimSource`, including
//! sources that fail), frame-level encode, write of an existing stream to
//! `ByteSink` / `MemSink<u64>` (optionally after `precompute_bitstream`),
//! parse + re-serialise + decode of stored bytes, verify. Inputs an operation
//! merely consumes (the stream to write, the bytes to parse) are produced on a
//! throw-away helper thread so that the caller thread performs only the
//! operation under test.

use crate::corpus::stream_bytes;
use crate::nomshim;
use crate::pan;
use crate::rng::{fnv, mix, Rng};
use crate::simsource::SimSource;
use crate::workload::{fresh_small as fresh_workload, neighbour as mutate, Workload};
use crate::{Summary, Violation};
use flacenc::bitsink::{ByteSink, MemSink};
use flacenc::component::{BitRepr, Stream};
use flacenc::error::Verify;
use flacenc::source::{Fill, FrameBuf};
use serde::{Deserialize, Serialize};
use serde_json::json;
use std::collections::{BTreeMap, BTreeSet};
use std::sync::mpsc;

#[derive(Serialize, Deserialize, Clone, Debug, PartialEq)]
#[serde(tag = "op")]
pub enum Op {
    /// `encode_with_fixed_block_size` (single-thread) + `Stream::write` to a `ByteSink`
    EncStream { w: Workload },
    /// `FrameBuf` fill (`fill` inter-channel samples, as ints or bytes) + `encode_fixed_size_frame` + `Frame::write`
    /// `keep`: the caller thread keeps its `FrameBuf` object from one such call to the next and re-uses it when
    /// the shape (channels, block size) matches - an object with a history of its own; the reference uses a new one
    EncFrame {
        w: Workload,
        frame_number: usize,
        fill: usize,
        as_bytes: bool,
        #[serde(default)]
        keep: bool,
    },
    /// write of a stream made elsewhere; sink 0 = `ByteSink`, 1 = `MemSink<u64>`
    /// `again`: what the owner did with the `Stream` object before the judged write - 0 nothing, 1 wrote it
    /// once already (same kind of sink), 2 wrote it to the other kind of sink, counted and verified it,
    /// 3 writes a frame-by-frame copy of it, 4 wrote it to a sink that failed half-way, 5 wrote it once with provisional STREAMINFO values and finalised it afterwards. The reference is always `again` = 0.
    Write {
        w: Workload,
        sink: u8,
        precompute: bool,
        #[serde(default)]
        again: u8,
    },
    /// write of a stream made elsewhere to a user-defined sink that FAILS at operation
    /// `at_permille`/1000 of the clean write (what a full disk does); the result is the outcome plus the
    /// bits accepted before the failure. What the failed call leaves behind is part of the history.
    WriteFailing { w: Workload, at_permille: u32, sticky: bool },
    /// `parser::stream` on bytes made elsewhere, then re-serialise and decode
    Parse { w: Workload },
    /// `Stream::verify` + `count_bits` of a stream made elsewhere
    Verify { w: Workload },
    /// a frame header built by hand through the public constructor (fixed blocking: frame number;
    /// variable blocking: start sample) and written to a `ByteSink` - what a tool that re-serialises
    /// foreign streams does between encodes
    WriteHeader { w: Workload, variable: bool, offset: u64 },
}

impl Op {
    pub fn name(&self) -> &'static str {
        match self {
            Self::EncStream { .. } => "EncStream",
            Self::EncFrame { .. } => "EncFrame",
            Self::Write { .. } => "Write",
            Self::WriteFailing { .. } => "WriteFailing",
            Self::Parse { .. } => "Parse",
            Self::Verify { .. } => "Verify",
            Self::WriteHeader { .. } => "WriteHeader",
        }
    }
    /// The call as its reference makes it: new objects without a history of their own.
    pub fn for_reference(&self) -> Self {
        let mut o = self.clone();
        match &mut o {
            Self::EncFrame { keep, .. } => *keep = false,
            Self::Write { again, .. } => *again = 0,
            _ => {}
        }
        o
    }
    pub fn w(&self) -> &Workload {
        match self {
            Self::EncStream { w } | Self::EncFrame { w, .. } | Self::Write { w, .. } | Self::WriteFailing { w, .. } | Self::Parse { w } | Self::Verify { w } | Self::WriteHeader { w, .. } => w,
        }
    }
}

#[derive(Serialize, Deserialize, Clone, Debug, PartialEq)]
pub struct Step {
    pub thread: usize,
    pub op: Op,
    /// how this step's arguments were derived ("fresh" or the mutation applied to an earlier step's arguments)
    #[serde(default)]
    pub derived: String,
}

#[derive(Serialize, Deserialize, Clone, Debug, PartialEq)]
pub struct History {
    pub nthreads: usize,
    pub steps: Vec<Step>,
}

#[derive(Clone, Debug, PartialEq, Eq)]
pub enum OpResult {
    Bytes(Vec<u8>),
    Err(String),
    Panic { site: String, message: String },
}

impl OpResult {
    fn digest(&self) -> (u8, u64, usize) {
        match self {
            Self::Bytes(b) => (0, fnv_bytes(b), b.len()),
            Self::Err(e) => (1, fnv(e), e.len()),
            Self::Panic { site, message } => (2, fnv(&format!("{site}|{}", pan::norm_msg(message))), 0),
        }
    }
    fn short(&self) -> String {
        match self {
            Self::Bytes(b) => format!("{} bytes (fnv {:016x})", b.len(), fnv_bytes(b)),
            Self::Err(e) => format!("Err({e})"),
            Self::Panic { site, message } => format!("panic at {site}: {}", pan::norm_msg(message)),
        }
    }
}

fn fnv_bytes(b: &[u8]) -> u64 {
    let mut h = 0xcbf2_9ce4_8422_2325u64;
    for x in b {
        h ^= u64::from(*x);
        h = h.wrapping_mul(0x0000_0100_0000_01B3);
    }
    h
}

thread_local! {
    /// The `FrameBuf` object a caller thread keeps between two `EncFrame { keep: true }` calls (the harness's
    /// own storage, not the library's).
    static KEPT_FB: std::cell::RefCell<Option<FrameBuf>> = const { std::cell::RefCell::new(None) };
}

/// What an operation consumes; made on a helper thread that is then discarded.
enum Prepared {
    Nothing,
    Stream(Stream),
    Bytes(Vec<u8>),
    Failed(String),
}

fn encode_plain(w: &Workload) -> Result<Stream, String> {
    let mut w2 = w.clone();
    w2.faults.clear();
    let mut src = SimSource::new(&w2);
    let cfg = w2.cfg.build(false, None, w2.config_block());
    flacenc::encode_with_fixed_block_size(&cfg, &mut src, w2.block).map_err(|e| format!("{e}"))
}

fn prepare(op: &Op) -> Prepared {
    match op {
        Op::EncStream { .. } | Op::EncFrame { .. } | Op::WriteHeader { .. } => Prepared::Nothing,
        Op::Write { w, .. } | Op::WriteFailing { w, .. } | Op::Verify { w } => match encode_plain(w) {
            Ok(s) => Prepared::Stream(s),
            Err(e) => Prepared::Failed(e),
        },
        Op::Parse { w } => match encode_plain(w) {
            Ok(s) => Prepared::Bytes(stream_bytes(&s)),
            Err(e) => Prepared::Failed(e),
        },
    }
}

fn mem64_bytes(s: &MemSink<u64>) -> Vec<u8> {
    let mut out = vec![0u8; (s.len() + 7) / 8];
    s.write_to_byte_slice(&mut out);
    out
}

fn perform_inner(op: &Op, prep: Prepared) -> OpResult {
    match (op, prep) {
        (_, Prepared::Failed(e)) => OpResult::Err(format!("preparation failed: {e}")),
        (Op::EncStream { w }, _) => {
            let mut src = SimSource::new(w);
            let cfg = w.cfg.build(false, None, w.config_block());
            match flacenc::encode_with_fixed_block_size(&cfg, &mut src, w.block) {
                Ok(s) => {
                    let mut sink = ByteSink::new();
                    match s.write(&mut sink) {
                        Ok(()) => OpResult::Bytes(sink.into_inner()),
                        Err(e) => OpResult::Err(format!("write: {e}")),
                    }
                }
                Err(e) => OpResult::Err(format!("{e}")),
            }
        }
        (Op::EncFrame { w, frame_number, fill, as_bytes, keep }, _) => {
            let cfg = w.cfg.build(false, None, w.config_block());
            let si = match flacenc::component::StreamInfo::new(w.rate, w.channels, w.bits) {
                Ok(si) => si,
                Err(e) => return OpResult::Err(format!("{e}")),
            };
            let kept = if *keep { KEPT_FB.with(|k| k.borrow_mut().take()).filter(|fb| fb.channels() == w.channels && fb.size() == w.block) } else { None };
            let mut fb = match kept.map_or_else(|| FrameBuf::with_size(w.channels, w.block), Ok) {
                Ok(fb) => fb,
                Err(e) => return OpResult::Err(format!("{e}")),
            };
            let data = w.samples();
            let n = (*fill).min(w.block).min(data.len() / w.channels);
            let part = &data[..n * w.channels];
            let r = if *as_bytes {
                let mut bb = vec![];
                crate::simsource::to_le_bytes(part, w.bytes_per_sample(), &mut bb);
                fb.fill_le_bytes(&bb, w.bytes_per_sample())
            } else {
                fb.fill_interleaved(part)
            };
            if let Err(e) = r {
                return OpResult::Err(format!("fill: {e}"));
            }
            if *keep && *frame_number % 2 == 1 {
                // the kept object is handed on as a clone made after the fill
                let c = fb.clone();
                fb = c;
            }
            let out = match flacenc::encode_fixed_size_frame(&cfg, &fb, *frame_number, &si) {
                Ok(f) => {
                    let mut sink = ByteSink::new();
                    match f.write(&mut sink) {
                        Ok(()) => OpResult::Bytes(sink.into_inner()),
                        Err(e) => OpResult::Err(format!("write: {e}")),
                    }
                }
                Err(e) => OpResult::Err(format!("{e}")),
            };
            if *keep {
                KEPT_FB.with(|k| *k.borrow_mut() = Some(fb));
            }
            out
        }
        (Op::Write { sink, precompute, again, .. }, Prepared::Stream(st)) => {
            let mut st = st;
            if *precompute {
                let mut out = Stream::with_stream_info(st.stream_info().clone());
                for n in 0..st.frame_count() {
                    let mut f = st.frame(n).unwrap().clone();
                    f.precompute_bitstream();
                    out.add_frame(f);
                }
                st = out;
            }
            match *again {
                1 | 2 => {
                    if (*sink == 0) == (*again == 1) {
                        let mut s = ByteSink::new();
                        std::hint::black_box((st.write(&mut s).is_ok(), s.into_inner().len()));
                    } else {
                        let mut s: MemSink<u64> = MemSink::new();
                        std::hint::black_box((st.write(&mut s).is_ok(), s.len()));
                    }
                    if *again == 2 {
                        std::hint::black_box((st.count_bits(), st.verify().is_ok()));
                    }
                }
                3 => {
                    // a copy made frame by frame (the type has no `Clone`), with the original's STREAMINFO
                    let mut copy = Stream::with_stream_info(st.stream_info().clone());
                    for n in 0..st.frame_count() {
                        copy.add_frame(st.frame(n).unwrap().clone());
                    }
                    *copy.stream_info_mut() = st.stream_info().clone();
                    st = copy;
                }
                4 => {
                    use crate::sinks::{Core, ReqSink};
                    let mut probe = ReqSink(Core::failing(None, false));
                    let _ = st.write(&mut probe);
                    let mut failing = ReqSink(Core::failing(Some(probe.0.ops / 2), true));
                    std::hint::black_box(st.write(&mut failing).is_err());
                }
                5 => {
                    // written once while its STREAMINFO still held provisional values (a flush before the
                    // stream was finalised), then finalised through `stream_info_mut()` and written again
                    let md5: Vec<u8> = st.stream_info().md5_digest().to_vec();
                    let total = st.stream_info().total_samples();
                    st.stream_info_mut().set_md5_digest(&[0xA5; 16]);
                    st.stream_info_mut().set_total_samples(total / 2 + 1);
                    let mut s = ByteSink::new();
                    std::hint::black_box((st.write(&mut s).is_ok(), s.into_inner().len()));
                    let mut back = [0u8; 16];
                    back.copy_from_slice(&md5);
                    st.stream_info_mut().set_md5_digest(&back);
                    st.stream_info_mut().set_total_samples(total);
                }
                _ => {}
            }
            if *sink == 0 {
                let mut s = ByteSink::new();
                match st.write(&mut s) {
                    Ok(()) => OpResult::Bytes(s.into_inner()),
                    Err(e) => OpResult::Err(format!("write: {e}")),
                }
            } else {
                let mut s: MemSink<u64> = MemSink::new();
                match st.write(&mut s) {
                    Ok(()) => OpResult::Bytes(mem64_bytes(&s)),
                    Err(e) => OpResult::Err(format!("write: {e}")),
                }
            }
        }
        (Op::WriteFailing { at_permille, sticky, .. }, Prepared::Stream(st)) => {
            use crate::sinks::{Core, ReqSink};
            let mut probe = ReqSink(Core::failing(None, false));
            if let Err(e) = st.write(&mut probe) {
                return OpResult::Err(format!("counting write: {e}"));
            }
            let n = probe.0.ops;
            let k = (n as u64 * u64::from(*at_permille) / 1000) as usize;
            let mut sink = ReqSink(Core::failing(Some(k.min(n.saturating_sub(1))), *sticky));
            let r = st.write(&mut sink);
            let mut out = match r {
                Ok(()) => b"ok:".to_vec(),
                Err(e) => format!("err({e}):").into_bytes(),
            };
            let accepted = sink.0.bits_before_error.unwrap_or(sink.0.model.len());
            out.extend_from_slice(&(accepted as u64).to_le_bytes());
            out.extend_from_slice(&sink.0.model.to_bytes());
            OpResult::Bytes(out)
        }
        (Op::WriteHeader { w, variable, offset }, _) => {
            use flacenc::component::{ChannelAssignment, FrameHeader, FrameOffset};
            let off = if *variable { FrameOffset::StartSample(*offset) } else { FrameOffset::Frame((*offset).min(u64::from(u32::MAX >> 1)) as u32) };
            match FrameHeader::new(w.block, ChannelAssignment::Independent(w.channels as u8), w.bits, w.rate, off) {
                Err(e) => OpResult::Err(format!("{e}")),
                Ok(h) => {
                    let mut sink = ByteSink::new();
                    match h.write(&mut sink) {
                        Ok(()) => OpResult::Bytes(sink.into_inner()),
                        Err(e) => OpResult::Err(format!("write: {e}")),
                    }
                }
            }
        }
        (Op::Parse { .. }, Prepared::Bytes(b)) => match nomshim::parse_stream(&b) {
            None => OpResult::Err("parser rejected the stream".into()),
            Some(st) => {
                let mut out = stream_bytes(&st);
                for v in crate::c16::decode_stream(&st) {
                    out.extend_from_slice(&v.to_le_bytes());
                }
                OpResult::Bytes(out)
            }
        },
        (Op::Verify { .. }, Prepared::Stream(st)) => {
            let v = match st.verify() {
                Ok(()) => "verified".to_owned(),
                Err(e) => format!("verify error: {e}"),
            };
            OpResult::Bytes(format!("{v}; count_bits={}", st.count_bits()).into_bytes())
        }
        _ => OpResult::Err("HARNESS: operation and prepared input do not match".into()),
    }
}

fn perform(op: &Op, prep: Prepared) -> OpResult {
    match pan::catch(|| perform_inner(op, prep)) {
        Ok(r) => r,
        Err(c) => OpResult::Panic {
            site: c.site,
            message: c.message,
        },
    }
}

fn on_fresh_thread<R: Send + 'static>(f: impl FnOnce() -> R + Send + 'static) -> R {
    std::thread::Builder::new()
        .stack_size(8 << 20)
        .spawn(f)
        .expect("HARNESS: spawn")
        .join()
        .expect("HARNESS: helper thread panicked")
}

fn prepare_elsewhere(op: &Op) -> Prepared {
    let op = op.clone();
    on_fresh_thread(move || match pan::catch(|| prepare(&op)) {
        Ok(p) => p,
        Err(c) => Prepared::Failed(format!("panic at {}: {}", c.site, c.message)),
    })
}

/// The reference: the operation alone on a fresh thread.
fn reference(op: &Op) -> OpResult {
    let op = &op.for_reference();
    let prep = prepare_elsewhere(op);
    let op = op.clone();
    on_fresh_thread(move || perform(&op, prep))
}

type Job = Box<dyn FnOnce() -> OpResult + Send>;

/// Long-lived caller threads; the sequencer runs exactly one job at a time.
struct Callers {
    txs: Vec<mpsc::Sender<Job>>,
    rx: mpsc::Receiver<OpResult>,
    handles: Vec<std::thread::JoinHandle<()>>,
}

impl Callers {
    fn new(n: usize) -> Self {
        let (rtx, rx) = mpsc::channel::<OpResult>();
        let mut txs = vec![];
        let mut handles = vec![];
        for _ in 0..n {
            let (tx, jrx) = mpsc::channel::<Job>();
            let rtx = rtx.clone();
            handles.push(
                std::thread::Builder::new()
                    .stack_size(8 << 20)
                    .spawn(move || {
                        while let Ok(job) = jrx.recv() {
                            let r = job();
                            if rtx.send(r).is_err() {
                                break;
                            }
                        }
                    })
                    .expect("HARNESS: spawn"),
            );
            txs.push(tx);
        }
        Self { txs, rx, handles }
    }
    fn run(&self, thread: usize, op: &Op) -> OpResult {
        let prep = prepare_elsewhere(op);
        let op = op.clone();
        self.txs[thread % self.txs.len()]
            .send(Box::new(move || perform(&op, prep)))
            .expect("HARNESS: caller thread gone");
        self.rx.recv().expect("HARNESS: caller thread died")
    }
    fn finish(self) {
        drop(self.txs);
        for h in self.handles {
            let _ = h.join();
        }
    }
}

#[derive(Default)]
pub struct RefCache {
    map: BTreeMap<u64, (u8, u64, usize)>,
    pub hits: u64,
    pub misses: u64,
}

fn op_hash(op: &Op) -> u64 {
    fnv(&serde_json::to_string(&op.for_reference()).unwrap())
}

fn first_diff(a: &[u8], b: &[u8]) -> String {
    let n = a.len().min(b.len());
    let at = (0..n).find(|i| a[*i] != b[*i]).or(if a.len() == b.len() { None } else { Some(n) });
    format!("len {} vs {}, first differing byte {:?}", a.len(), b.len(), at)
}

pub struct HistoryStats {
    /// wrapping sum of (step index, result digest) hashes
    pub digest: u64,
    pub ops: u64,
    pub panics: u64,
    pub errs: u64,
}

/// Runs a history; returns the first step whose result differs from its fresh-thread reference.
pub fn run_history(h: &History, cache: &mut RefCache, stats: &mut HistoryStats) -> Option<Violation> {
    run_history_with(h, cache, stats, false)
}

/// The same call alone in a FRESH PROCESS (what no thread of this process can have influenced).
fn process_reference(op: &Op) -> Result<(u8, u64, usize), String> {
    let out = spawn_self("c10-ref", &serde_json::to_string(op).unwrap())?;
    let v: serde_json::Value = serde_json::from_str(out.trim()).map_err(|e| format!("c10-ref output: {e}: {out}"))?;
    Ok((
        v["kind"].as_u64().ok_or("c10-ref: kind")? as u8,
        v["fnv"].as_u64().ok_or("c10-ref: fnv")?,
        v["len"].as_u64().ok_or("c10-ref: len")? as usize,
    ))
}

fn spawn_self(cmd: &str, stdin_text: &str) -> Result<String, String> {
    use std::io::Write;
    let exe = std::env::current_exe().map_err(|e| format!("current_exe: {e}"))?;
    let mut c = std::process::Command::new(exe);
    c.arg(cmd).stdin(std::process::Stdio::piped()).stdout(std::process::Stdio::piped()).stderr(std::process::Stdio::inherit());
    if crate::logger::installed() {
        c.arg("--logger");
    }
    let mut child = c.spawn().map_err(|e| format!("spawn {cmd}: {e}"))?;
    child.stdin.take().unwrap().write_all(stdin_text.as_bytes()).map_err(|e| format!("{cmd} stdin: {e}"))?;
    let out = child.wait_with_output().map_err(|e| format!("{cmd} wait: {e}"))?;
    if !out.status.success() {
        return Err(format!("{cmd} exited with {:?}", out.status.code()));
    }
    String::from_utf8(out.stdout).map_err(|e| format!("{cmd} output: {e}"))
}

/// `seamsim c10-ref`: one call (JSON on stdin) alone in this fresh process; prints the digest of its result.
pub fn proc_ref_main() {
    let mut text = String::new();
    std::io::Read::read_to_string(&mut std::io::stdin(), &mut text).expect("HARNESS: stdin");
    let op: Op = serde_json::from_str(&text).unwrap_or_else(|e| crate::harness_error(&format!("c10-ref: bad op: {e}")));
    let d = reference(&op).digest();
    println!("{}", json!({"kind": d.0, "fnv": d.1, "len": d.2}));
}

/// `seamsim c10-proc`: one history (JSON on stdin) in this fresh process, every call also compared with the same
/// call alone in a process of its own; prints the verdict.
pub fn proc_history_main() {
    let mut text = String::new();
    std::io::Read::read_to_string(&mut std::io::stdin(), &mut text).expect("HARNESS: stdin");
    let h: History = serde_json::from_str(&text).unwrap_or_else(|e| crate::harness_error(&format!("c10-proc: bad history: {e}")));
    let mut cache = RefCache::default();
    let mut stats = HistoryStats { digest: 0, ops: 0, panics: 0, errs: 0 };
    let v = run_history_with(&h, &mut cache, &mut stats, true);
    println!(
        "{}",
        json!({
            "violation": v.map(|v| json!({"class": v.class, "site": v.site, "message": v.message, "detail": v.detail, "case": v.case})),
            "ops": stats.ops, "errs": stats.errs, "panics": stats.panics, "digest": stats.digest,
        })
    );
}

/// Runs a history in a fresh process (see `proc_history_main`).
pub fn run_history_in_fresh_process(h: &History, stats: &mut HistoryStats) -> Result<Option<Violation>, String> {
    let out = spawn_self("c10-proc", &serde_json::to_string(h).unwrap())?;
    let v: serde_json::Value = serde_json::from_str(out.trim()).map_err(|e| format!("c10-proc output: {e}: {out}"))?;
    stats.ops += v["ops"].as_u64().unwrap_or(0);
    stats.errs += v["errs"].as_u64().unwrap_or(0);
    stats.panics += v["panics"].as_u64().unwrap_or(0);
    stats.digest = stats.digest.wrapping_add(v["digest"].as_u64().unwrap_or(0));
    let viol = &v["violation"];
    if viol.is_null() {
        return Ok(None);
    }
    let g = |k: &str| viol[k].as_str().unwrap_or("").to_owned();
    Ok(Some(Violation {
        class: g("class"),
        site: g("site"),
        message: g("message"),
        detail: g("detail"),
        case: viol["case"].clone(),
    }))
}

fn run_history_with(h: &History, cache: &mut RefCache, stats: &mut HistoryStats, proc_ref: bool) -> Option<Violation> {
    let callers = Callers::new(h.nthreads.max(1));
    let mut found = None;
    for (i, st) in h.steps.iter().enumerate() {
        let got = callers.run(st.thread, &st.op);
        stats.ops += 1;
        match &got {
            OpResult::Panic { .. } => stats.panics += 1,
            OpResult::Err(_) => stats.errs += 1,
            OpResult::Bytes(_) => {}
        }
        let key = op_hash(&st.op);
        let gd = got.digest();
        stats.digest = stats.digest.wrapping_add(mix(mix(key, i as u64), mix(u64::from(gd.0), gd.1)) | 1);
        let want_digest = if let Some(d) = cache.map.get(&key) {
            cache.hits += 1;
            *d
        } else {
            cache.misses += 1;
            let d = reference(&st.op).digest();
            cache.map.insert(key, d);
            d
        };
        if got.digest() != want_digest {
            // recompute the reference in full for the report (and to rule out a digest collision)
            let want = reference(&st.op);
            if want == got {
                continue;
            }
            let detail = match (&got, &want) {
                (OpResult::Bytes(a), OpResult::Bytes(b)) => first_diff(a, b),
                (a, b) => format!("{} vs fresh-thread {}", a.short(), b.short()),
            };
            let prev: Vec<String> = h.steps[..i]
                .iter()
                .enumerate()
                .map(|(j, s)| format!("#{j} t{} {} ({})", s.thread, s.op.name(), s.derived))
                .collect();
            found = Some(Violation {
                class: "history_dependent_result".into(),
                site: st.op.name().into(),
                message: String::new(),
                detail: format!(
                    "step #{i} ({} on caller thread {}, arguments {}) gave a result that differs from the same call alone on a fresh thread: {detail}; preceding steps: [{}]",
                    st.op.name(),
                    st.thread,
                    st.derived,
                    prev.join(", ")
                ),
                case: json!({"history": h, "failing_step": i}),
            });
            break;
        }
        if proc_ref {
            let want = process_reference(&st.op).unwrap_or_else(|e| crate::harness_error(&format!("fresh-process reference: {e}")));
            if got.digest() != want {
                let prev: Vec<String> = h.steps[..i]
                    .iter()
                    .enumerate()
                    .map(|(j, s)| format!("#{j} t{} {} ({})", s.thread, s.op.name(), s.derived))
                    .collect();
                found = Some(Violation {
                    class: "process_history_dependent_result".into(),
                    site: st.op.name().into(),
                    message: String::new(),
                    detail: format!(
                        "step #{i} ({} on caller thread {}, arguments {}) gave {} - the same as alone on a fresh thread of this process, but the same call alone in a fresh process gives digest {:?}; preceding steps: [{}]",
                        st.op.name(),
                        st.thread,
                        st.derived,
                        got.short(),
                        want,
                        prev.join(", ")
                    ),
                    case: json!({"history": h, "failing_step": i, "fresh_process": true}),
                });
                break;
            }
        }
    }
    callers.finish();
    found
}

// ---------------------------------------------------------------------------------------------
// generation
// ---------------------------------------------------------------------------------------------

fn gen_op(r: &mut Rng, w: Workload) -> Op {
    match r.below(12) {
        0..=5 => Op::EncStream { w },
        6 | 7 => {
            let fill = match r.below(4) {
                0 => w.block,
                1 => 1 + r.below(w.block),
                2 => w.block - 1,
                _ => w.block,
            };
            let mut w = w;
            w.nfull = w.nfull.max(1);
            w.faults.clear();
            Op::EncFrame {
                frame_number: *r.pick(&[0usize, 1, 127, 128, 65535, (1usize << 31) - 1]),
                fill,
                as_bytes: r.chance(0.4),
                keep: r.chance(0.35),
                w,
            }
        }
        8 => Op::Write {
            w,
            sink: r.below(2) as u8,
            precompute: r.chance(0.4),
            again: if r.chance(0.5) { 0 } else { 1 + r.below(5) as u8 },
        },
        9 => Op::WriteFailing {
            w,
            at_permille: *r.pick(&[0u32, 100, 500, 900, 990, 999]),
            sticky: r.chance(0.5),
        },
        10 => Op::Parse { w },
        _ if r.chance(0.5) => Op::WriteHeader {
            w,
            variable: r.chance(0.6),
            offset: *r.pick(&[0u64, 1, 127, 128, 123_456, (1 << 31) - 1, (1 << 35) + 7]),
        },
        _ => Op::Verify { w },
    }
}

/// A history centred on one long-lived object: a caller thread keeps ONE `FrameBuf` and uses it for a run of
/// frame-level encodes of the same shape (channels, block size) whose sample width, fill length, signal,
/// delivery and configuration change from call to call - what a program does that recycles its buffers
/// between streams. Other calls may come in between. The reference of every call uses a new buffer.
fn gen_object_history(r: &mut Rng, thorough: bool) -> History {
    let nops = 3 + r.below(if thorough { 9 } else { 5 });
    let mut base = fresh_workload(r);
    if r.chance(0.5) {
        base.channels = 1;
        base.sig_kinds.truncate(1);
    }
    base.bits = *r.pick(&[24usize, 24, 20, 16]);
    base.nfull = base.nfull.max(1);
    base.faults.clear();
    crate::workload::tame(&mut base);
    let mut steps: Vec<Step> = vec![];
    for i in 0..nops {
        if i > 0 && r.chance(0.2) {
            let from = r.below(steps.len());
            let (w, tag) = mutate(steps[from].op.w(), r);
            steps.push(Step { thread: 0, op: gen_op(r, w), derived: format!("{tag} of #{from}") });
            continue;
        }
        let mut w = base.clone();
        let mut tag = "object".to_owned();
        if i > 0 {
            w.bits = *r.pick(crate::workload::BITS);
            w.sig_seed = r.next_u64();
            for k in &mut w.sig_kinds {
                if r.chance(0.5) {
                    *k = r.below(14) as u8;
                }
            }
            if r.chance(0.3) {
                w.cfg = crate::workload::CfgSpec::random(r);
            }
            crate::workload::tame(&mut w);
            tag = format!("object: {} bits", w.bits);
        }
        let fill = match (i, r.below(5)) {
            (0, _) | (_, 0) => w.block,
            (_, 1) => 1 + r.below(w.block),
            (_, 2) => w.block - 1,
            (_, 3) => 1,
            _ => w.block / 2,
        };
        steps.push(Step {
            thread: 0,
            op: Op::EncFrame { frame_number: *r.pick(&[0usize, 1, 128]), fill, as_bytes: r.chance(0.4), keep: true, w },
            derived: tag,
        });
    }
    History { nthreads: 1, steps }
}

pub fn gen_history(seed: u64, index: u64, thorough: bool) -> History {
    let mut r = Rng::new(mix(seed, 0xC10_0000 + index));
    if index % 8 == 5 {
        return gen_object_history(&mut r, thorough);
    }
    let nthreads = match r.below(10) {
        0..=4 => 1,
        5..=7 => 2,
        _ => 3,
    };
    let nops = 2 + r.below(if thorough { 11 } else { 7 });
    let mut steps: Vec<Step> = vec![];
    for i in 0..nops {
        let (w, derived) = if i > 0 && r.chance(0.8) {
            let from = r.below(steps.len());
            let (w, tag) = mutate(steps[from].op.w(), &mut r);
            (w, format!("{tag} of #{from}"))
        } else {
            (fresh_workload(&mut r), "fresh".to_owned())
        };
        let mut op = gen_op(&mut r, w);
        // repeating the very same call (e.g. A, B, A) is the sharpest probe of stale state
        if i >= 2 && r.chance(0.15) {
            let from = r.below(steps.len());
            op = steps[from].op.clone();
            steps.push(Step {
                thread: r.below(nthreads),
                op,
                derived: format!("repeat of #{from}"),
            });
            continue;
        }
        steps.push(Step {
            thread: r.below(nthreads),
            op,
            derived,
        });
    }
    History { nthreads, steps }
}

fn same_bucket_pair(h: &History) -> bool {
    let alphas: Vec<u32> = h.steps.iter().filter_map(|s| s.op.w().cfg.tukey_alpha_bits).collect();
    for (i, a) in alphas.iter().enumerate() {
        for b in &alphas[i + 1..] {
            let (fa, fb) = (f32::from_bits(*a), f32::from_bits(*b));
            if a != b && (fa * 65535.0) as u64 == (fb * 65535.0) as u64 {
                return true;
            }
        }
    }
    false
}

pub fn run(ctx: &crate::RunCtx) -> (Summary, Vec<Violation>) {
    let mut sum = Summary::new(
        "a case = one history: 2..8 (thorough 2..12) calls issued one at a time by a seeded sequencer to 1..3 long-lived caller threads; \
         calls are stream-level encodes through a scripted source (also failing ones), frame-level encodes, writes to ByteSink / MemSink<u64> \
         with or without precomputed frames, writes to a user sink that fails part-way, parse+re-serialise+decode, verify; 80% of the calls take the arguments of an earlier call with ONE \
         neighbouring change (block smaller/larger, fewer/more channels, narrower/wider samples, Rice cap 14<->0, fixed order 4<->0, Tukey alpha \
         +-1..300 ulp, other window, LPC order/precision, a switch, length, signal, order selection, delivery mode, a failing source) or repeat an \
         earlier call exactly. Every call's result is compared with the same call alone on a fresh thread. distinct = distinct history hashes; \
         non-trivial = the history contains at least one derived (neighbouring or repeated) call.",
    );
    let thorough = ctx.tier == "thorough";
    let mut viols = vec![];
    let mut cache = RefCache::default();
    let mut distinct: BTreeSet<u64> = BTreeSet::new();
    let mut stats = HistoryStats { digest: 0, ops: 0, panics: 0, errs: 0 };
    for i in 0..ctx.count {
        if i % ctx.nchild != ctx.child {
            continue;
        }
        let h = gen_history(ctx.seed, i, thorough);
        crate::progress::begin(&|| serde_json::to_value(&h).unwrap());
        sum.cases += 1;
        let hh = fnv(&serde_json::to_string(&h).unwrap());
        let derived = h.steps.iter().any(|s| s.derived != "fresh" && !s.derived.starts_with("same"));
        if derived && distinct.insert(hh) {
            sum.distinct_nontrivial += 1;
        }
        for s in &h.steps {
            *sum.ops_hist.entry(s.op.name().into()).or_default() += 1;
            let tag = s.derived.split(' ').next().unwrap_or("").to_owned();
            *sum.probes.entry(format!("derived_{tag}")).or_default() += 1;
            for f in &s.op.w().faults {
                *sum.fault_kinds.entry(f.kind_name().into()).or_default() += 1;
            }
        }
        *sum.probes.entry(format!("caller_threads_{}", h.nthreads)).or_default() += 1;
        if same_bucket_pair(&h) {
            *sum.probes.entry("alpha_pair_in_same_1_65535_bucket".into()).or_default() += 1;
        }
        let verdict = if i % 16 == 7 {
            // one history in sixteen runs in a process of its own, every call also compared with the same call
            // alone in a fresh process: state shared by ALL threads of a process is invisible to a fresh thread
            *sum.probes.entry("histories_run_in_a_process_of_their_own".into()).or_default() += 1;
            run_history_in_fresh_process(&h, &mut stats).unwrap_or_else(|e| crate::harness_error(&format!("history in a fresh process: {e}")))
        } else {
            run_history(&h, &mut cache, &mut stats)
        };
        if let Some(v) = verdict {
            *sum.classes.entry(v.class.clone()).or_default() += 1;
            viols.push(v);
        }
        if sum.samples.len() < 2 && i >= 2 * ctx.nchild {
            sum.samples.push(json!({"index": i, "history": h}));
        }
    }
    sum.seam_ops = stats.ops;
    sum.digest = stats.digest;
    sum.outcomes.insert("calls_returning_error".into(), stats.errs);
    sum.outcomes.insert("calls_panicking".into(), stats.panics);
    sum.outcomes.insert("reference_cache_hits".into(), cache.hits);
    sum.outcomes.insert("reference_runs".into(), cache.misses);
    (sum, viols)
}

fn parse_case(case: &serde_json::Value) -> Result<History, String> {
    serde_json::from_value(case.get("history").cloned().unwrap_or(serde_json::Value::Null)).map_err(|e| format!("bad C10 case: {e}"))
}

pub fn exec(case: &serde_json::Value) -> Result<Option<Violation>, String> {
    let h = parse_case(case)?;
    let mut cache = RefCache::default();
    let mut stats = HistoryStats { digest: 0, ops: 0, panics: 0, errs: 0 };
    if case.get("fresh_process").and_then(serde_json::Value::as_bool) == Some(true) {
        return run_history_in_fresh_process(&h, &mut stats);
    }
    Ok(run_history(&h, &mut cache, &mut stats))
}

/// Shrinks a failing history: keep the failing call last, drop earlier calls one at a time while the
/// same class/site persists, then try a single caller thread.
pub fn minimise(case: &serde_json::Value, class: &str, site: &str) -> serde_json::Value {
    let Ok(mut h) = parse_case(case) else {
        return case.clone();
    };
    let mut cache = RefCache::default();
    let mut stats = HistoryStats { digest: 0, ops: 0, panics: 0, errs: 0 };
    let in_process = case.get("fresh_process").and_then(serde_json::Value::as_bool) != Some(true);
    let fails = |h: &History, cache: &mut RefCache, stats: &mut HistoryStats| -> Option<usize> {
        if in_process { run_history(h, cache, stats) } else { run_history_in_fresh_process(h, stats).ok().flatten() }
            .filter(|v| v.class == class && v.site == site)
            .and_then(|v| v.case.get("failing_step").and_then(serde_json::Value::as_u64))
            .map(|x| x as usize)
    };
    let Some(f) = fails(&h, &mut cache, &mut stats) else {
        return case.clone();
    };
    h.steps.truncate(f + 1);
    let mut progress = true;
    while progress {
        progress = false;
        for i in 0..h.steps.len().saturating_sub(1) {
            let mut t = h.clone();
            t.steps.remove(i);
            if fails(&t, &mut cache, &mut stats).is_some() {
                h = t;
                if let Some(f2) = fails(&h, &mut cache, &mut stats) {
                    h.steps.truncate(f2 + 1);
                }
                progress = true;
                break;
            }
        }
    }
    let mut single = h.clone();
    single.nthreads = 1;
    for s in &mut single.steps {
        s.thread = 0;
    }
    if fails(&single, &mut cache, &mut stats).is_some() {
        h = single;
    }
    let f = fails(&h, &mut cache, &mut stats).unwrap_or(h.steps.len().saturating_sub(1));
    if in_process {
        json!({"history": h, "failing_step": f})
    } else {
        json!({"history": h, "failing_step": f, "fresh_process": true})
    }
}
