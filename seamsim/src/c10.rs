//! (under construction)
use crate::{Summary, Violation};

pub fn run(_ctx: &crate::RunCtx) -> (Summary, Vec<Violation>) {
    (Summary::new("under construction"), vec![])
}

pub fn exec(_case: &serde_json::Value) -> Result<Option<Violation>, String> {
    Err("not implemented".into())
}

pub fn minimise(case: &serde_json::Value, _class: &str, _site: &str) -> serde_json::Value {
    case.clone()
}
