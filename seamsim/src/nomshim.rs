//! The one place where the harness names a nom type (the parser is generic over nom's error type).

use flacenc::component::parser;
use flacenc::component::Stream;

/// `Some(stream)` when `parser::stream` accepts `bytes`, `None` when it returns an error.
pub fn parse_stream(bytes: &[u8]) -> Option<Stream> {
    parser::stream::<nom::error::Error<&[u8]>>(bytes).ok().map(|(_, s)| s)
}

/// Where and why `parser::stream` rejects `bytes` (debugging aid for the foreign-stream assembler).
pub fn explain(bytes: &[u8]) -> String {
    match parser::stream::<nom::error::Error<&[u8]>>(bytes) {
        Ok((rest, s)) => format!("accepted: {} frame(s), {} byte(s) left", s.frame_count(), rest.len()),
        Err(nom::Err::Error(e) | nom::Err::Failure(e)) => format!("rejected at byte {} of {} ({:?})", bytes.len() - e.input.len(), bytes.len(), e.code),
        Err(nom::Err::Incomplete(n)) => format!("incomplete ({n:?})"),
    }
}
