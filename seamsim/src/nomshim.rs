//! The one place where the harness names a nom type (the parser is generic over nom's error type).

use flacenc::component::parser;
use flacenc::component::Stream;

/// `Some(stream)` when `parser::stream` accepts `bytes`, `None` when it returns an error.
pub fn parse_stream(bytes: &[u8]) -> Option<Stream> {
    parser::stream::<nom::error::Error<&[u8]>>(bytes).ok().map(|(_, s)| s)
}
