//! Bystander threads: other threads of the same process that are *in the middle of* a library call while
//! the calls under test run. Each one is parked deterministically inside its own peer object (a sink
//! operation, a source read), so it holds whatever the library keeps while a write / an encode is in
//! progress, and it stays there until the process ends. With per-thread state only (the shipped code) a
//! bystander cannot influence anybody; a process-wide scratch buffer, lock or cache that the library shares
//! between threads shows up as a different result, an error or a panic in the calls under test.
//!
//! Whether bystanders are present is part of the environment the simulation varies (child processes 2, 3,
//! 6, 7, ... have them) and is recorded in the replay file.

use flacenc::bitsink::{BitSink, Bits};
use flacenc::component::BitRepr;
use flacenc::error::SourceError;
use flacenc::source::{Fill, Source};
use std::sync::mpsc;

/// A user sink (required methods only) that parks its thread for good at its `park_at`-th operation.
struct ParkingSink {
    ops: usize,
    park_at: usize,
    parked: mpsc::Sender<&'static str>,
    name: &'static str,
}

impl ParkingSink {
    fn gate(&mut self) {
        if self.ops == self.park_at {
            let _ = self.parked.send(self.name);
            loop {
                std::thread::park();
            }
        }
        self.ops += 1;
    }
}

impl BitSink for ParkingSink {
    type Error = std::convert::Infallible;
    fn align_to_byte(&mut self) -> Result<usize, Self::Error> {
        self.gate();
        Ok(0)
    }
    fn write_lsbs<T: Bits>(&mut self, _val: T, _n: usize) -> Result<(), Self::Error> {
        self.gate();
        Ok(())
    }
    fn write_msbs<T: Bits>(&mut self, _val: T, _n: usize) -> Result<(), Self::Error> {
        self.gate();
        Ok(())
    }
    fn write<T: Bits>(&mut self, _val: T) -> Result<(), Self::Error> {
        self.gate();
        Ok(())
    }
}

/// A source that delivers a ramp and parks its thread for good inside its `park_at`-th read (after the fill).
struct ParkingSource {
    reads: usize,
    park_at: usize,
    parked: mpsc::Sender<&'static str>,
    name: &'static str,
}

impl Source for ParkingSource {
    fn channels(&self) -> usize {
        2
    }
    fn bits_per_sample(&self) -> usize {
        16
    }
    fn sample_rate(&self) -> usize {
        44100
    }
    fn read_samples<F: Fill>(&mut self, block_size: usize, dest: &mut F) -> Result<usize, SourceError> {
        let base = (self.reads * block_size) as i32;
        let v: Vec<i32> = (0..block_size * 2).map(|i| ((base + i as i32 * 7) % 2000) - 1000 + (i as i32 % 2) * 13).collect();
        dest.fill_interleaved(&v)?;
        if self.reads == self.park_at {
            let _ = self.parked.send(self.name);
            loop {
                std::thread::park();
            }
        }
        self.reads += 1;
        Ok(block_size)
    }
}

fn small_stream() -> flacenc::component::Stream {
    use flacenc::error::Verify;
    // single-thread mode: its frames carry no precomputed bitstream, so writing them assembles them
    let mut cfg = flacenc::config::Encoder::default();
    cfg.multithread = false;
    let cfg = cfg.into_verified().expect("HARNESS: default config");
    let audio: Vec<i32> = (0..3 * 160).map(|i| ((i * 37) % 1500) - 750 + (i % 2) * 11).collect();
    let src = flacenc::source::MemSource::from_samples(&audio, 2, 16, 44100);
    flacenc::encode_with_fixed_block_size(&cfg, src, 64).expect("HARNESS: bystander stream")
}

/// Starts the bystanders and returns once every one of them is parked inside its library call. The
/// threads are never released; they end with the process.
pub fn park_all() -> Vec<&'static str> {
    let (tx, rx) = mpsc::channel::<&'static str>();
    let mut expected = 0;
    // (1) inside `Frame::write` of a frame without precomputed bitstream, while its bytes go to the sink
    {
        let tx = tx.clone();
        expected += 1;
        std::thread::Builder::new()
            .name("bystander-frame-write".into())
            .spawn(move || {
                let st = small_stream();
                let f = st.frame(1).expect("HARNESS: frame").clone();
                let mut sink = ParkingSink { ops: 0, park_at: 3, parked: tx, name: "frame_write" };
                let _ = f.write(&mut sink);
            })
            .expect("HARNESS: spawn");
    }
    // (2) inside `Stream::write`, in the middle of the second frame
    {
        let tx = tx.clone();
        expected += 1;
        std::thread::Builder::new()
            .name("bystander-stream-write".into())
            .spawn(move || {
                let st = small_stream();
                let mut counting = ParkingSink { ops: 0, park_at: usize::MAX, parked: tx.clone(), name: "count" };
                let _ = st.write(&mut counting);
                let mut sink = ParkingSink { ops: 0, park_at: counting.ops * 2 / 3, parked: tx, name: "stream_write" };
                let _ = st.write(&mut sink);
            })
            .expect("HARNESS: spawn");
    }
    // (3) inside a frame with precomputed bitstream being written
    {
        let tx = tx.clone();
        expected += 1;
        std::thread::Builder::new()
            .name("bystander-precomputed-write".into())
            .spawn(move || {
                let st = small_stream();
                let mut f = st.frame(0).expect("HARNESS: frame").clone();
                f.precompute_bitstream();
                let mut sink = ParkingSink { ops: 0, park_at: 5, parked: tx, name: "precomputed_write" };
                let _ = f.write(&mut sink);
            })
            .expect("HARNESS: spawn");
    }
    // (4) inside the single-thread stream encoder, in its third read
    {
        let tx = tx.clone();
        expected += 1;
        std::thread::Builder::new()
            .name("bystander-encode".into())
            .spawn(move || {
                use flacenc::error::Verify;
                let mut cfg = flacenc::config::Encoder::default();
                cfg.multithread = false;
                let cfg = cfg.into_verified().expect("HARNESS: config");
                let src = ParkingSource { reads: 0, park_at: 2, parked: tx, name: "encode" };
                let _ = flacenc::encode_with_fixed_block_size(&cfg, src, 192);
            })
            .expect("HARNESS: spawn");
    }
    drop(tx);
    let mut names = vec![];
    while names.len() < expected {
        match rx.recv_timeout(std::time::Duration::from_secs(120)) {
            Ok("count") => {}
            Ok(n) => names.push(n),
            Err(_) => {
                // a bystander that ended (or died) before it parked is simply absent; never a verdict
                break;
            }
        }
    }
    names.sort_unstable();
    names
}
