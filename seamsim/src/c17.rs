//! C17 — invalid arguments produce errors, not panics.
//!
//! Simulated part (the clauses that live on the `Source` / `Fill` seam): a
//! Byzantine peer hands over, at read k of an otherwise ordinary stream or at
//! one fill of a buffer that already has a history, (a) a sample outside the
//! declared width, (b) more samples than the buffer holds, (c) bytes with a
//! bytes-per-sample that disagrees with the declared width (or is not a
//! bytes-per-sample at all: 0, 5, 8), or asks for a frame number >= 2^31.
//! Oracle: the call returns an error — no panic, no `Ok`.
//!
//! Enumerated part (`Grid`, auxiliary — plain boundary-value enumeration, not
//! simulation; see DESIGN.md): the format / block-size arguments of the entry
//! points and constructors on the property's grid of boundary and wrap-around
//! values (0, min-1, max+1, 2^8+k, 2^16+k, 2^32+k, usize::MAX).

use crate::pan;
use crate::rng::{fnv, mix, Rng};
use crate::simsource::{to_le_bytes, SimSource};
use crate::workload::{fresh_small, gen_out_of_range, CfgSpec, Fault, Workload, BITS};
use crate::{Summary, Violation};
use flacenc::component::{Stream, StreamInfo};
use flacenc::source::{Context, Fill, FrameBuf, MemSource};
use serde::{Deserialize, Serialize};
use serde_json::json;
use std::collections::BTreeSet;

#[derive(Serialize, Deserialize, Clone, Debug, PartialEq)]
#[serde(tag = "bad")]
pub enum BadFill {
    /// `extra` scalars more than the buffer holds (capacity x channels), as ints (bps 0) or bytes
    Oversize { extra: usize, bps: usize },
    /// a byte fill of `len` inter-channel samples at a bytes-per-sample that disagrees with the declared width
    WrongBps { bps: usize, len: usize },
}

#[derive(Serialize, Deserialize, Clone, Debug, PartialEq)]
#[serde(tag = "bad")]
pub enum BadFrame {
    OutOfRange { ch: usize, idx: usize, value: i32, as_bytes: bool },
    FrameNumber { n: u64 },
}

#[derive(Serialize, Deserialize, Clone, Debug, PartialEq)]
#[serde(tag = "call")]
pub enum GridCall {
    /// `StreamInfo::new` and `Stream::new`
    StreamNew { rate: u64, channels: u64, bits: u64 },
    /// `FrameBuf::with_size`
    FrameBufWithSize { channels: u64, size: u64 },
    /// `encode_with_fixed_block_size` (single-thread) with a source that declares this format and this block size
    Encode {
        rate: u64,
        channels: u64,
        bits: u64,
        block: u64,
        /// the source holds no samples at all (the invalid argument must be rejected all the same)
        #[serde(default)]
        empty: bool,
    },
}

#[derive(Serialize, Deserialize, Clone, Debug, PartialEq)]
#[serde(tag = "kind")]
pub enum Case {
    ByzStream {
        w: Workload,
    },
    ByzFill {
        /// 0 = `FrameBuf`, 1 = `Context`, 2 = `(FrameBuf, Context)`
        target: u8,
        channels: usize,
        bits: usize,
        capacity: usize,
        /// a valid fill of this many samples first (the buffer has a history)
        pre_fill: Option<usize>,
        /// the buffer was created with this size and then `resize`d to `capacity` (shrunk or grown)
        #[serde(default)]
        resize_from: Option<usize>,
        bad: BadFill,
    },
    ByzFrame {
        channels: usize,
        bits: usize,
        capacity: usize,
        fill: usize,
        bad: BadFrame,
    },
    Grid {
        call: GridCall,
    },
}

fn viol(class: &str, site: &str, detail: String, case: &Case) -> Violation {
    Violation {
        class: class.into(),
        site: site.into(),
        message: String::new(),
        detail,
        case: serde_json::to_value(case).unwrap(),
    }
}

fn panic_viol(c: &pan::Caught, what: &str, case: &Case) -> Violation {
    Violation {
        class: "panic".into(),
        site: c.site.clone(),
        message: c.message.clone(),
        detail: format!("{what} panicked: {}", pan::norm_msg(&c.message)),
        case: serde_json::to_value(case).unwrap(),
    }
}

pub struct Stats {
    pub ops: u64,
    pub fired: std::collections::BTreeMap<String, u64>,
    pub not_fired: u64,
}

fn quiet_block(bits: usize, n: usize, seed: u64) -> Vec<i32> {
    let mut r = Rng::new(seed);
    let hi: i64 = (1i64 << (bits - 1)) - 1;
    (0..n).map(|_| r.range(-(hi.min(100)), hi.min(100)) as i32).collect()
}

fn exec_byz_stream(case: &Case, w: &Workload, stats: &mut Stats) -> Option<Violation> {
    let res = pan::catch(|| {
        let mut src = SimSource::new(w);
        let cfg = w.cfg.build(false, None, w.config_block());
        let r = flacenc::encode_with_fixed_block_size(&cfg, &mut src, w.block).map(|s| s.frame_count()).map_err(|e| format!("{e}"));
        (r, src.fired.clone(), src.reads)
    });
    match res {
        Err(c) => Some(panic_viol(&c, &format!("encode_with_fixed_block_size with a Byzantine source ({:?})", w.faults), case)),
        Ok((r, fired, reads)) => {
            stats.ops += reads as u64;
            if fired.is_empty() {
                stats.not_fired += 1;
                return None;
            }
            for f in &fired {
                *stats.fired.entry((*f).to_owned()).or_default() += 1;
            }
            match r {
                Err(_) => None,
                Ok(frames) => Some(viol(
                    "byzantine_accepted",
                    fired[0],
                    format!("the source misbehaved ({:?}) but the entry point returned Ok with {frames} frame(s)", w.faults),
                    case,
                )),
            }
        }
    }
}

fn bad_fill_on<F: Fill>(dest: &mut F, channels: usize, bits: usize, capacity: usize, bad: &BadFill) -> Result<(), String> {
    let good = (bits + 7) / 8;
    match bad {
        BadFill::Oversize { extra, bps } => {
            let block = quiet_block(bits, capacity * channels + extra, 7);
            if *bps == 0 {
                dest.fill_interleaved(&block).map_err(|e| format!("{e}"))
            } else {
                let mut bb = vec![];
                to_le_bytes(&block, good, &mut bb);
                dest.fill_le_bytes(&bb, good).map_err(|e| format!("{e}"))
            }
        }
        BadFill::WrongBps { bps, len } => {
            let block = quiet_block(bits, len * channels, 9);
            // the same audio serialised at the wrong width (bps 0: any bytes)
            let mut bb = vec![];
            for v in &block {
                let b = i64::from(*v).to_le_bytes();
                bb.extend_from_slice(&b[..(*bps).clamp(1, 8)]);
            }
            dest.fill_le_bytes(&bb, *bps).map_err(|e| format!("{e}"))
        }
    }
}

#[allow(clippy::too_many_arguments)]
fn exec_byz_fill(case: &Case, target: u8, channels: usize, bits: usize, capacity: usize, pre_fill: Option<usize>, resize_from: Option<usize>, bad: &BadFill, stats: &mut Stats) -> Result<Option<Violation>, String> {
    let mut fb = FrameBuf::with_size(channels, resize_from.unwrap_or(capacity)).map_err(|e| format!("HARNESS: framebuf: {e}"))?;
    if resize_from.is_some() {
        fb.resize(capacity);
        if fb.size() != capacity {
            return Err("HARNESS: resize did not take".into());
        }
    }
    let mut ctx = Context::new(bits, channels);
    if let Some(n) = pre_fill {
        let block = quiet_block(bits, n.min(capacity) * channels, 3);
        let mut t = (&mut fb, &mut ctx);
        if t.fill_interleaved(&block).is_err() {
            // a VALID fill was rejected: that is C14's business, and this case cannot be set up
            stats.not_fired += 1;
            return Ok(None);
        }
    }
    let tname = ["FrameBuf", "Context", "(FrameBuf, Context)"][target as usize % 3];
    let res = pan::catch(|| match target % 3 {
        0 => bad_fill_on(&mut fb, channels, bits, capacity, bad),
        1 => bad_fill_on(&mut ctx, channels, bits, capacity, bad),
        _ => {
            let mut t = (&mut fb, &mut ctx);
            bad_fill_on(&mut t, channels, bits, capacity, bad)
        }
    });
    stats.ops += 1;
    let kind = match bad {
        BadFill::Oversize { .. } => "oversize_fill",
        BadFill::WrongBps { .. } => "wrong_bytes_per_sample",
    };
    *stats.fired.entry(kind.into()).or_default() += 1;
    Ok(match res {
        Err(c) => Some(panic_viol(&c, &format!("{tname}: {bad:?}"), case)),
        Ok(Err(_)) => {
            // The caller got its error and carries on with the same buffer: the frame-level entry point is
            // then called with a legal object (whatever it holds) and must return - Ok or Err, never a panic -
            // and a legal fill afterwards must be taken.
            if target % 3 != 1 && (8..=24).contains(&bits) {
                if let Ok(si) = StreamInfo::new(44100, channels, bits) {
                    let cfg = CfgSpec::default_spec().build(false, None, capacity.clamp(32, 32767));
                    let after = pan::catch(|| {
                        let _ = flacenc::encode_fixed_size_frame(&cfg, &fb, 0, &si);
                    });
                    stats.ops += 1;
                    if let Err(c) = after {
                        return Ok(Some(panic_viol(&c, &format!("encode_fixed_size_frame on the {tname} after it rejected {bad:?}"), case)));
                    }
                    let block = quiet_block(bits, capacity.min(40) * channels, 7);
                    let again = pan::catch(|| fb.fill_interleaved(&block).is_ok() && flacenc::encode_fixed_size_frame(&cfg, &fb, 1, &si).is_ok());
                    match again {
                        Err(c) => return Ok(Some(panic_viol(&c, &format!("legal fill + encode on the {tname} after it rejected {bad:?}"), case))),
                        Ok(_) => {}
                    }
                }
            }
            None
        }
        Ok(Ok(())) => Some(viol(
            "byzantine_accepted",
            kind,
            format!("{tname} (channels {channels}, {bits} bits, capacity {capacity}) accepted {bad:?}; filled_size() is now {}", fb.filled_size()),
            case,
        )),
    })
}

fn exec_byz_frame(case: &Case, channels: usize, bits: usize, capacity: usize, fill: usize, bad: &BadFrame, stats: &mut Stats) -> Result<Option<Violation>, String> {
    let si = StreamInfo::new(44100, channels, bits).map_err(|e| format!("HARNESS: stream info: {e}"))?;
    let mut fb = FrameBuf::with_size(channels, capacity).map_err(|e| format!("HARNESS: framebuf: {e}"))?;
    let n = fill.clamp(1, capacity);
    let mut block = quiet_block(bits, n * channels, 5);
    let mut frame_number = 0usize;
    let mut as_bytes = false;
    match bad {
        BadFrame::OutOfRange { ch, idx, value, as_bytes: ab } => {
            block[(idx % n) * channels + ch % channels] = *value;
            as_bytes = *ab;
        }
        BadFrame::FrameNumber { n } => frame_number = usize::try_from(*n).unwrap_or(usize::MAX),
    }
    // hand the block over the way a source would; a value that does not fit the byte width goes as ints
    let good = (bits + 7) / 8;
    let fits = |v: i32| good >= 4 || (i64::from(v) >= -(1i64 << (8 * good - 1)) && i64::from(v) < (1i64 << (8 * good - 1)));
    let r = if as_bytes && block.iter().all(|v| fits(*v)) {
        let mut bb = vec![];
        to_le_bytes(&block, good, &mut bb);
        fb.fill_le_bytes(&bb, good)
    } else {
        fb.fill_interleaved(&block)
    };
    if r.is_err() {
        stats.not_fired += 1;
        return Ok(None);
    }
    let cfg = CfgSpec::default_spec().build(false, None, capacity);
    let res = pan::catch(|| flacenc::encode_fixed_size_frame(&cfg, &fb, frame_number, &si).map(|_| ()).map_err(|e| format!("{e}")));
    stats.ops += 2;
    let kind = match bad {
        BadFrame::OutOfRange { .. } => "out_of_range",
        BadFrame::FrameNumber { .. } => "frame_number",
    };
    *stats.fired.entry(kind.into()).or_default() += 1;
    Ok(match res {
        Err(c) => Some(panic_viol(&c, &format!("encode_fixed_size_frame with {bad:?}"), case)),
        Ok(Err(_)) => None,
        Ok(Ok(())) => Some(viol("byzantine_accepted", kind, format!("encode_fixed_size_frame ({bits} bits) returned Ok for {bad:?}"), case)),
    })
}

struct FormatSource {
    rate: usize,
    channels: usize,
    bits: usize,
    inner: MemSource,
}

impl flacenc::source::Source for FormatSource {
    fn channels(&self) -> usize {
        self.channels
    }
    fn bits_per_sample(&self) -> usize {
        self.bits
    }
    fn sample_rate(&self) -> usize {
        self.rate
    }
    fn read_samples<F: Fill>(&mut self, block_size: usize, dest: &mut F) -> Result<usize, flacenc::error::SourceError> {
        self.inner.read_samples(block_size.min(4096), dest)
    }
}

fn us(x: u64) -> usize {
    usize::try_from(x).unwrap_or(usize::MAX)
}

/// Is this argument combination outside the supported domain, beyond doubt? (Widths 4n+1 up to 25 are
/// accepted by the library's shared width check for side channels; they are not judged.)
fn grid_invalid(call: &GridCall) -> bool {
    let bad_fmt = |rate: u64, ch: u64, bits: u64| rate > 96_000 || ch == 0 || ch > 8 || !(8..=25).contains(&bits) || !matches!(bits % 4, 0 | 1);
    match call {
        GridCall::StreamNew { rate, channels, bits } => bad_fmt(*rate, *channels, *bits),
        GridCall::FrameBufWithSize { channels, size } => *channels == 0 || *channels > 8 || !(32..=32767).contains(size),
        GridCall::Encode { rate, channels, bits, block, .. } => bad_fmt(*rate, *channels, *bits) || !(32..=32767).contains(block),
    }
}

fn exec_grid(case: &Case, call: &GridCall, stats: &mut Stats) -> Option<Violation> {
    if !grid_invalid(call) {
        return None;
    }
    stats.ops += 1;
    *stats.fired.entry("invalid_argument".into()).or_default() += 1;
    let res = pan::catch(|| match call {
        GridCall::StreamNew { rate, channels, bits } => {
            let a = StreamInfo::new(us(*rate), us(*channels), us(*bits)).is_ok();
            let b = Stream::new(us(*rate), us(*channels), us(*bits)).is_ok();
            a || b
        }
        GridCall::FrameBufWithSize { channels, size } => FrameBuf::with_size(us(*channels), us(*size)).is_ok(),
        GridCall::Encode { rate, channels, bits, block, empty } => {
            let ch_data = us(*channels).clamp(1, 8);
            let src = FormatSource {
                rate: us(*rate),
                channels: us(*channels),
                bits: us(*bits),
                inner: MemSource::from_samples(&vec![0i32; if *empty { 0 } else { 64 * ch_data }], ch_data, 16, 44100),
            };
            let cfg = CfgSpec::default_spec().build(false, None, 4096);
            flacenc::encode_with_fixed_block_size(&cfg, src, us(*block)).is_ok()
        }
    });
    match res {
        Err(c) => Some(panic_viol(&c, &format!("{call:?}"), case)),
        Ok(false) => None,
        Ok(true) => Some(viol("invalid_argument_accepted", "grid", format!("{call:?} is outside the supported domain but was accepted"), case)),
    }
}

pub fn exec_case(case: &Case, stats: &mut Stats) -> Result<Option<Violation>, String> {
    match case {
        Case::ByzStream { w } => Ok(exec_byz_stream(case, w, stats)),
        Case::ByzFill {
            target,
            channels,
            bits,
            capacity,
            pre_fill,
            resize_from,
            bad,
        } => exec_byz_fill(case, *target, *channels, *bits, *capacity, *pre_fill, *resize_from, bad, stats),
        Case::ByzFrame {
            channels,
            bits,
            capacity,
            fill,
            bad,
        } => exec_byz_frame(case, *channels, *bits, *capacity, *fill, bad, stats),
        Case::Grid { call } => Ok(exec_grid(case, call, stats)),
    }
}

const CAPS: &[usize] = &[32, 33, 48, 64, 65, 128, 255, 256, 257, 576];

fn boundary(r: &mut Rng, lo: u64, hi: u64) -> u64 {
    // the property's grid: 0, min-1, min, max, max+1, 2^8+k, 2^16+k, 2^32+k, usize::MAX (k = a valid value)
    let k = lo + r.below((hi - lo + 1) as usize) as u64;
    match r.below(10) {
        0 => 0,
        1 => lo.saturating_sub(1),
        2 => lo,
        3 => hi,
        4 => hi + 1,
        5 => (1 << 8) + k,
        6 => (1 << 16) + k,
        7 => (1u64 << 32) + k,
        8 => u64::MAX,
        _ => k,
    }
}

fn gen_grid(r: &mut Rng) -> GridCall {
    // one argument from the grid, the others valid (sometimes two)
    let mut rate = *r.pick(&[1u64, 8000, 44100, 96000]);
    let mut channels = 1 + r.below(8) as u64;
    let mut bits = *r.pick(&[8u64, 12, 16, 20, 24]);
    let mut block = *r.pick(&[32u64, 64, 4096, 32767]);
    let which = r.below(4);
    let n = if r.chance(0.15) { 2 } else { 1 };
    for j in 0..n {
        match (which + j) % 4 {
            0 => rate = boundary(r, 1, 96_000),
            1 => channels = boundary(r, 1, 8),
            2 => bits = match r.below(3) {
                0 => *r.pick(&[0u64, 1, 4, 7, 10, 11, 14, 15, 18, 19, 22, 23, 26, 27, 28, 31, 32, 33, 64]),
                _ => boundary(r, 8, 24),
            },
            _ => block = boundary(r, 32, 32767),
        }
    }
    match r.below(3) {
        0 => GridCall::StreamNew { rate, channels, bits },
        1 => GridCall::FrameBufWithSize { channels, size: block },
        _ => GridCall::Encode {
            rate,
            channels,
            bits,
            block,
            empty: r.chance(0.3),
        },
    }
}

pub fn gen_case(seed: u64, index: u64) -> Case {
    let mut r = Rng::new(mix(seed, 0xC17_0000 + index));
    match r.below(10) {
        0..=3 => {
            let mut w = fresh_small(&mut r);
            w.faults.clear();
            if w.plan_reads().is_empty() {
                w.nfull = 1;
            }
            let nreads = w.plan_reads().len();
            let k = match r.below(4) {
                0 => 0,
                1 => nreads - 1,
                _ => r.below(nreads),
            };
            let f = match r.below(3) {
                0 => gen_out_of_range(&mut r, &w, k),
                1 => Fault::Oversize {
                    k,
                    extra: *r.pick(&[1usize, 2, 5, w.block, w.block * (w.channels - 1).max(1)]),
                },
                _ => {
                    let good = w.bytes_per_sample();
                    let mut bps = 1 + r.below(4);
                    if bps == good {
                        bps = if good == 4 { 1 } else { good + 1 };
                    }
                    Fault::WrongBps { k, bps }
                }
            };
            w.faults.push(f);
            Case::ByzStream { w }
        }
        4..=6 => {
            let channels = if r.chance(0.3) { 1 } else { 1 + r.below(8) };
            let bits = *r.pick(BITS);
            let capacity = *r.pick(CAPS);
            let good = (bits + 7) / 8;
            let target = r.below(3) as u8;
            let bad = if target == 1 || r.chance(0.4) {
                // a bytes-per-sample that disagrees with the declared width (the buffer alone declares none: only 0 / >4 there)
                let pool: Vec<usize> = if target == 0 { vec![0, 5, 8] } else { (0..=8usize).filter(|b| *b != good && *b != 6 && *b != 7).collect() };
                BadFill::WrongBps {
                    bps: *r.pick(&pool),
                    len: *r.pick(&[0usize, 1, capacity / 2, capacity]),
                }
            } else {
                BadFill::Oversize {
                    extra: *r.pick(&[1usize, channels, 2 * channels, capacity * channels, 5]),
                    bps: if r.chance(0.5) { 0 } else { good },
                }
            };
            // an oversize fill means nothing to a Context alone (it holds no samples)
            let target = if matches!(bad, BadFill::Oversize { .. }) && target == 1 { 2 } else { target };
            Case::ByzFill {
                target,
                channels,
                bits,
                capacity,
                pre_fill: if r.chance(0.5) { Some(*r.pick(&[capacity, capacity - 1, 1])) } else { None },
                resize_from: if r.chance(0.35) { Some(*r.pick(&[32usize, 64, 100, 257, 1024, 4096])).filter(|f| *f != capacity) } else { None },
                bad,
            }
        }
        7 => {
            let channels = 1 + r.below(8);
            let bits = *r.pick(BITS);
            let capacity = *r.pick(CAPS);
            let half: i64 = 1i64 << (bits - 1);
            let bad = if r.chance(0.7) {
                let value = match r.below(9) {
                    0 => half,
                    1 => -half - 1,
                    2 => half + 1 + r.below(1000) as i64,
                    3 => -half - 2 - r.below(1000) as i64,
                    4 => i64::from(i32::MAX),
                    5 => i64::from(i32::MIN),
                    6 => (1i64 << 16) + r.below(100) as i64 + if bits > 16 { 1i64 << 24 } else { 0 },
                    7 => half * 2,
                    _ => -half * 2,
                };
                BadFrame::OutOfRange {
                    ch: r.below(channels),
                    idx: r.below(capacity),
                    value: value.clamp(i64::from(i32::MIN), i64::from(i32::MAX)) as i32,
                    as_bytes: r.chance(0.5),
                }
            } else {
                BadFrame::FrameNumber {
                    n: *r.pick(&[1u64 << 31, (1 << 31) + 1, 1 << 32, (1 << 32) + 5, u64::MAX, (1u64 << 40) + 3]),
                }
            };
            Case::ByzFrame {
                channels,
                bits,
                capacity,
                fill: *r.pick(&[capacity, capacity, 1, capacity / 2]),
                bad,
            }
        }
        _ => Case::Grid { call: gen_grid(&mut r) },
    }
}

fn case_kind(c: &Case) -> &'static str {
    match c {
        Case::ByzStream { .. } => "byz_stream",
        Case::ByzFill { .. } => "byz_fill",
        Case::ByzFrame { .. } => "byz_frame",
        Case::Grid { .. } => "grid",
    }
}

pub fn run(ctx: &crate::RunCtx) -> (Summary, Vec<Violation>) {
    let mut sum = Summary::new(
        "a case = one misbehaviour of the peer on the Source/Fill seam: (byz_stream) an ordinary small stream (single-thread; the multi-thread \
         slice is parsim/C17P) whose source, at read k, hands over a sample outside the declared width, fills more samples than requested \
         (by 1, 2, 5, a block, blocks x channels), or fills bytes at a bytes-per-sample that disagrees with the width; (byz_fill) the same on one \
         FrameBuf / Context / (FrameBuf, Context), fresh, already filled, or resized (shrunk / grown) before, incl. bytes-per-sample 0, 5, 8; (byz_frame) encode_fixed_size_frame on a \
         buffer holding one out-of-range sample (delivered as ints or bytes) or with a frame number >= 2^31; (grid, auxiliary enumeration, not \
         simulation) format and block-size arguments of StreamInfo::new / Stream::new / FrameBuf::with_size / encode_with_fixed_block_size from \
         {0, min-1, max+1, 2^8+k, 2^16+k, 2^32+k, usize::MAX}. Oracle: Err - no panic, no Ok. distinct = distinct case hashes; non-trivial = the \
         misbehaviour actually fired (an invalid argument was actually passed).",
    );
    let mut viols = vec![];
    let mut distinct = BTreeSet::new();
    let mut stats = Stats {
        ops: 0,
        fired: std::collections::BTreeMap::new(),
        not_fired: 0,
    };
    for i in 0..ctx.count {
        if i % ctx.nchild != ctx.child {
            continue;
        }
        let case = gen_case(ctx.seed, i);
        crate::progress::begin(&|| serde_json::to_value(&case).unwrap());
        sum.cases += 1;
        *sum.ops_hist.entry(case_kind(&case).into()).or_default() += 1;
        let before: u64 = stats.fired.values().sum();
        let ops0 = stats.ops;
        match exec_case(&case, &mut stats) {
            Ok(Some(v)) => {
                sum.note(i, (stats.ops - ops0) ^ fnv(&v.class) ^ fnv(&v.site));
                *sum.classes.entry(v.class.clone()).or_default() += 1;
                viols.push(v);
            }
            Ok(None) => sum.note(i, stats.ops - ops0),
            Err(e) => crate::harness_error(&e),
        }
        let fired_now = stats.fired.values().sum::<u64>() > before;
        if fired_now && distinct.insert(fnv(&serde_json::to_string(&case).unwrap())) {
            sum.distinct_nontrivial += 1;
        }
        if sum.samples.len() < 4 && i >= 4 * ctx.nchild && Some(case_kind(&case)) != sum.samples.last().and_then(|s: &serde_json::Value| s.get("kind")).and_then(|k| k.as_str()).map(|k| match k {
            "ByzStream" => "byz_stream",
            "ByzFill" => "byz_fill",
            "ByzFrame" => "byz_frame",
            _ => "grid",
        }) {
            let mut v = serde_json::to_value(&case).unwrap();
            v.as_object_mut().unwrap().insert("index".into(), json!(i));
            sum.samples.push(v);
        }
    }
    sum.seam_ops = stats.ops;
    sum.fault_kinds = stats.fired;
    sum.outcomes.insert("fault_not_reached".into(), stats.not_fired);
    (sum, viols)
}

pub fn exec(case: &serde_json::Value) -> Result<Option<Violation>, String> {
    let case: Case = serde_json::from_value(case.clone()).map_err(|e| format!("bad C17 case: {e}"))?;
    let mut stats = Stats {
        ops: 0,
        fired: std::collections::BTreeMap::new(),
        not_fired: 0,
    };
    exec_case(&case, &mut stats)
}

/// Shrinks Byzantine streams (earlier fault, fewer blocks, one channel, cheap configuration) and fills (no pre-fill).
pub fn minimise(case: &serde_json::Value, class: &str, site: &str) -> serde_json::Value {
    let Ok(mut c) = serde_json::from_value::<Case>(case.clone()) else {
        return case.clone();
    };
    let mut stats = Stats {
        ops: 0,
        fired: std::collections::BTreeMap::new(),
        not_fired: 0,
    };
    let mut same = |c: &Case| matches!(exec_case(c, &mut stats), Ok(Some(v)) if v.class == class && v.site == site);
    let mut progress = true;
    while progress {
        progress = false;
        let mut cands: Vec<Case> = vec![];
        match &c {
            Case::ByzStream { w } => {
                let mut push = |f: &dyn Fn(&mut Workload)| {
                    let mut n = w.clone();
                    f(&mut n);
                    n.residue = n.residue.min(n.block - 1);
                    if n != *w && !n.plan_reads().is_empty() {
                        cands.push(Case::ByzStream { w: n });
                    }
                };
                push(&|n| {
                    for f in &mut n.faults {
                        f.set_k(0);
                    }
                });
                push(&|n| n.nfull = n.nfull.min(1));
                push(&|n| n.residue = 0);
                push(&|n| {
                    n.channels = 1;
                    n.sig_kinds.truncate(1);
                    for f in &mut n.faults {
                        if let Fault::OutOfRange { ch, .. } = f {
                            *ch = 0;
                        }
                    }
                });
                push(&|n| n.cfg = CfgSpec { use_lpc: false, ..CfgSpec::default_spec() });
                push(&|n| n.delivery = 0);
                push(&|n| n.short_reads = false);
                push(&|n| n.block = 32);
            }
            Case::ByzFill { pre_fill, resize_from, .. } => {
                if pre_fill.is_some() {
                    let mut n = c.clone();
                    if let Case::ByzFill { pre_fill, .. } = &mut n {
                        *pre_fill = None;
                    }
                    cands.push(n);
                }
                if resize_from.is_some() {
                    let mut n = c.clone();
                    if let Case::ByzFill { resize_from, .. } = &mut n {
                        *resize_from = None;
                    }
                    cands.push(n);
                }
            }
            _ => {}
        }
        for n in cands {
            if same(&n) {
                c = n;
                progress = true;
                break;
            }
        }
    }
    serde_json::to_value(c).unwrap()
}
