//! C12 — a failing user sink yields an error, not a panic.
//!
//! For every component of the corpus and EVERY operation index k of its write,
//! the write is repeated on a sink that fails at operation k, in four flavours
//! ({required-methods-only, all-methods-overridden} x {fails from k on, fails only at k}).

use crate::corpus::{self, CorpusItem, CorpusSpec};
use crate::pan;
use crate::sinks::{BitModel, Core, FullSink, ReqSink, SimSinkError, UnitErrSink, UnitSinkError};
use crate::{Summary, Violation};
use flacenc::bitsink::{BitSink, ByteSink};
use flacenc::component::{BitRepr, Frame, FrameHeader, MetadataBlockData, Residual, Stream, StreamInfo, SubFrame};
use flacenc::error::OutputError;
use serde::{Deserialize, Serialize};
use serde_json::json;

pub enum Comp {
    Stream(Stream),
    Frame(Frame),
    FrameHeader(FrameHeader),
    SubFrame(SubFrame),
    Residual(Residual),
    StreamInfo(StreamInfo),
    Meta(MetadataBlockData),
}

impl Comp {
    pub fn write<S: BitSink>(&self, s: &mut S) -> Result<(), OutputError<S>> {
        match self {
            Self::Stream(c) => c.write(s),
            Self::Frame(c) => c.write(s),
            Self::FrameHeader(c) => c.write(s),
            Self::SubFrame(c) => c.write(s),
            Self::Residual(c) => c.write(s),
            Self::StreamInfo(c) => c.write(s),
            Self::Meta(c) => c.write(s),
        }
    }
    pub fn count_bits(&self) -> usize {
        match self {
            Self::Stream(c) => c.count_bits(),
            Self::Frame(c) => c.count_bits(),
            Self::FrameHeader(c) => c.count_bits(),
            Self::SubFrame(c) => c.count_bits(),
            Self::Residual(c) => c.count_bits(),
            Self::StreamInfo(c) => c.count_bits(),
            Self::Meta(c) => c.count_bits(),
        }
    }
}

/// The components of a corpus item, by name. Names are stable so that a replay file can refer to one.
pub fn components(item: &CorpusItem) -> Vec<(String, Comp)> {
    let mut out: Vec<(String, Comp)> = vec![];
    let st = &item.stream;
    out.push(("stream".into(), Comp::Stream(corpus::rebuild(item, false))));
    // the same stream with every frame's bitstream precomputed (what multi-thread mode returns)
    out.push(("stream_precomputed".into(), Comp::Stream(corpus::rebuild(item, true))));
    out.push(("stream_info".into(), Comp::StreamInfo(st.stream_info().clone())));
    out.push((
        "metadata_unknown".into(),
        Comp::Meta(MetadataBlockData::new_unknown(9, &[1, 2, 3, 4, 5, 6, 7]).expect("HARNESS: metadata")),
    ));
    out.push((
        "metadata_unknown_empty".into(),
        Comp::Meta(MetadataBlockData::new_unknown(5, &[]).expect("HARNESS: metadata")),
    ));
    // metadata blocks of the standard type tags (1 = PADDING ... 6 = PICTURE), zero-filled and not
    for tag in 1u8..=6 {
        for (label, blob) in [("zeros", vec![0u8; 40]), ("data", (0..40u8).map(|i| i.wrapping_mul(29) ^ 0x11).collect::<Vec<u8>>())] {
            if let Ok(m) = MetadataBlockData::new_unknown(tag, &blob) {
                out.push((format!("metadata_tag{tag}_{label}"), Comp::Meta(m)));
            }
        }
    }
    // a hand-built residual whose Rice quotients include 64, 65, 128 and 200 (zero runs that are exact
    // multiples of the word size and longer than one word; the encoder rarely produces them on small inputs)
    {
        let mut quotients = vec![0u32; 32];
        let mut remainders = vec![0u32; 32];
        for (i, q) in [64u32, 65, 1, 128, 0, 200, 63, 129, 3, 64].iter().enumerate() {
            quotients[2 + i * 3] = *q;
            remainders[2 + i * 3] = (i as u32) % 4;
        }
        if let Ok(r) = Residual::new(0, 32, 2, &[2], &quotients, &remainders) {
            out.push(("residual_long_zero_runs".into(), Comp::Residual(r)));
        }
    }
    // a stream that mixes precomputed and not-precomputed frames (assembled by hand)
    if st.frame_count() >= 2 {
        let mut mixed = Stream::with_stream_info(st.stream_info().clone());
        for n in 0..st.frame_count() {
            let mut f = st.frame(n).unwrap().clone();
            if n % 2 == 0 {
                f.precompute_bitstream();
            }
            mixed.add_frame(f);
        }
        out.push(("stream_mixed_precomputed".into(), Comp::Stream(mixed)));
    }
    // components that come out of the parser, and frames put together again through the public constructor,
    // rather than straight out of the encoder
    if let Ok(Some(parsed)) = crate::pan::catch(|| crate::nomshim::parse_stream(&item.bytes)) {
        for n in 0..parsed.frame_count().min(2) {
            let f = parsed.frame(n).unwrap();
            out.push((format!("frame{n}_parsed"), Comp::Frame(f.clone())));
            for c in 0..f.subframe_count().min(2) {
                out.push((format!("frame{n}_sub{c}_parsed"), Comp::SubFrame(f.subframe(c).unwrap().clone())));
            }
        }
        out.push(("stream_parsed".into(), Comp::Stream(parsed)));
    }
    if st.frame_count() >= 1 {
        let (h, subs) = st.frame(st.frame_count() - 1).unwrap().clone().into_parts();
        if let Ok(f) = Frame::new(h, subs.into_iter()) {
            out.push(("frame_last_from_parts".into(), Comp::Frame(f)));
        }
    }
    for n in 0..st.frame_count() {
        let f = st.frame(n).unwrap();
        out.push((format!("frame{n}"), Comp::Frame(f.clone())));
        let mut fp = f.clone();
        fp.precompute_bitstream();
        out.push((format!("frame{n}_precomputed"), Comp::Frame(fp)));
        out.push((format!("frame{n}_header"), Comp::FrameHeader(f.header().clone())));
        for c in 0..f.subframe_count() {
            let sf = f.subframe(c).unwrap();
            out.push((format!("frame{n}_sub{c}"), Comp::SubFrame(sf.clone())));
            match sf {
                SubFrame::FixedLpc(x) => out.push((format!("frame{n}_sub{c}_residual"), Comp::Residual(x.residual().clone()))),
                SubFrame::Lpc(x) => out.push((format!("frame{n}_sub{c}_residual"), Comp::Residual(x.residual().clone()))),
                _ => {}
            }
        }
    }
    out
}

#[derive(Serialize, Deserialize, Clone, Debug)]
pub struct Case {
    pub corpus_idx: usize,
    pub spec: CorpusSpec,
    pub component: String,
    /// "required", "overridden" or "required_unit_error"
    pub sink: String,
    pub sticky: bool,
    pub k: usize,
    /// an earlier failing write on the same thread (only present when the violation needs that history)
    #[serde(default, skip_serializing_if = "Option::is_none")]
    pub prelude: Option<Box<Case>>,
}

enum Outcome {
    Ok,
    SinkErr(SimSinkError),
    OtherErr(String),
}

fn run_on<S: BitSink<Error = SimSinkError>>(comp: &Comp, sink: &mut S) -> Result<Outcome, pan::Caught> {
    pan::catch(|| match comp.write(sink) {
        Ok(()) => Outcome::Ok,
        Err(OutputError::Sink(e)) => Outcome::SinkErr(e),
        Err(e) => Outcome::OtherErr(format!("{e}")),
    })
}

/// The same for the sink whose error type carries no payload (the operation index is not known from the error).
fn run_on_unit(comp: &Comp, sink: &mut UnitErrSink, k: usize) -> Result<Outcome, pan::Caught> {
    pan::catch(|| match comp.write(sink) {
        Ok(()) => Outcome::Ok,
        Err(OutputError::Sink(UnitSinkError)) => Outcome::SinkErr(SimSinkError { k }),
        Err(e) => Outcome::OtherErr(format!("{e}")),
    })
}

/// Any other sink flavour: whatever error the sink reported counts as "that error" (tagged with k).
fn run_on_any<S: BitSink>(comp: &Comp, sink: &mut S, k: usize) -> Result<Outcome, pan::Caught> {
    pan::catch(|| match comp.write(sink) {
        Ok(()) => Outcome::Ok,
        Err(OutputError::Sink(_)) => Outcome::SinkErr(SimSinkError { k }),
        Err(e) => Outcome::OtherErr(format!("{e}")),
    })
}

/// One write of `comp` to a sink of flavour `flavour` that fails as `core` says.
fn run_flavour(comp: &Comp, flavour: &str, core: Core, k: usize) -> (Result<Outcome, pan::Caught>, Core) {
    match flavour {
        "required" => {
            let mut s = ReqSink(core);
            let r = run_on(comp, &mut s);
            (r, s.0)
        }
        "required_unit_error" => {
            let mut s = UnitErrSink(core);
            let r = run_on_unit(comp, &mut s, k);
            (r, s.0)
        }
        "required_io_error" => {
            let mut s = crate::sinks::IoErrSink(core);
            let r = run_on_any(comp, &mut s, k);
            (r, s.0)
        }
        "required_wrapped_io_error" => {
            let mut s = crate::sinks::WrappedIoSink(core);
            let r = run_on_any(comp, &mut s, k);
            (r, s.0)
        }
        _ => {
            let mut s = FullSink(core);
            let r = run_on(comp, &mut s);
            (r, s.0)
        }
    }
}

fn clean_bits(comp: &Comp) -> (Vec<u8>, usize) {
    let mut s = ByteSink::new();
    comp.write(&mut s).expect("HARNESS: clean write failed");
    let n = s.len();
    (s.into_inner(), n)
}

/// Executes one case; returns a violation or None. `ops_out` receives the number of sink operations performed.
pub fn exec_case(comp: &Comp, case: &Case, clean: &BitModel, clean_bytes: &[u8], ops_out: &mut u64) -> Option<Violation> {
    let (res, core) = run_flavour(comp, &case.sink, Core::failing(Some(case.k), case.sticky), case.k);
    *ops_out += core.ops as u64;
    let mk = |class: &str, site: String, message: String, detail: String| {
        Some(Violation {
            class: class.into(),
            site,
            message,
            detail,
            case: serde_json::to_value(case).unwrap(),
        })
    };
    match res {
        Err(c) => {
            return mk("panic", c.site.clone(), c.message.clone(), format!("write panicked when the sink failed at operation {} ({} sink)", case.k, case.sink));
        }
        Ok(Outcome::Ok) if core.errors == 0 => {
            // the write finished before operation k: k is beyond this write (never generated by `run`)
            return None;
        }
        Ok(Outcome::Ok) => {
            if core.errors > 0 {
                return mk("error_swallowed", String::new(), String::new(), format!("sink returned an error at operation {} but write returned Ok", case.k));
            }
            // the write finished before operation k: only possible when k >= N (not generated)
            return mk("fault_not_reached", String::new(), String::new(), format!("write finished after {} operations, before the scripted failure at {}", core.ops, case.k));
        }
        Ok(Outcome::OtherErr(e)) => {
            return mk("wrong_error", String::new(), e.clone(), format!("sink failed at operation {} but write returned a non-sink error: {e}", case.k));
        }
        Ok(Outcome::SinkErr(e)) => {
            // any error the sink reported is "that error" (a sticky sink reports one per operation)
            if e.k < case.k {
                return mk("harness_inconsistent", String::new(), String::new(), format!("error tagged {} before the scripted failure {}", e.k, case.k));
            }
        }
    }
    // only the bits accepted BEFORE the failure are judged (the property says nothing about later ones)
    let before = BitModel {
        bits: core.model.bits[..core.bits_before_error.unwrap_or(core.model.len())].to_vec(),
    };
    if !before.is_prefix_of(clean) {
        let at = before.bits.iter().zip(clean.bits.iter()).position(|(a, b)| a != b);
        return mk("not_a_prefix", String::new(), String::new(), format!("bits accepted before the failure ({}) are not a prefix of the clean bitstream (first difference at bit {:?})", before.len(), at));
    }
    // The same write again on the same thread, failing at the same operation: whatever the first failure
    // left behind, the bits this second sink accepts before ITS failure must again be a prefix of the
    // correct bitstream, and it must again get an error back (the property holds for every failing write,
    // not only for the first one on a thread).
    let (res2, core2) = run_flavour(comp, &case.sink, Core::failing(Some(case.k), case.sticky), case.k);
    *ops_out += core2.ops as u64;
    let _ = clean_bytes;
    match res2 {
        Err(c) => mk("panic_after_fault", c.site.clone(), c.message.clone(), "the same failing write repeated on the same thread panicked".into()),
        Ok(Outcome::Ok) if core2.errors > 0 => mk("error_swallowed", String::new(), String::new(), format!("repeated write: sink returned an error at operation {} but write returned Ok", case.k)),
        Ok(Outcome::OtherErr(e)) => mk("wrong_error", String::new(), e.clone(), format!("repeated write returned a non-sink error: {e}")),
        Ok(_) => {
            let before2 = BitModel {
                bits: core2.model.bits[..core2.bits_before_error.unwrap_or(core2.model.len())].to_vec(),
            };
            if before2.is_prefix_of(clean) {
                None
            } else {
                let at = before2.bits.iter().zip(clean.bits.iter()).position(|(a, b)| a != b);
                mk(
                    "not_a_prefix_after_earlier_failure",
                    String::new(),
                    String::new(),
                    format!(
                        "after an earlier failed write on the same thread, the bits accepted before the failure ({}) are not a prefix of the clean bitstream (first difference at bit {at:?})",
                        before2.len()
                    ),
                )
            }
        }
    }
}

/// The operation indices at which the sink is made to fail: all of them for a write of up to 6000 sink
/// operations; for larger components (a 96 KB frame is ~10^5 operations on a byte-wise sink) the first and
/// last 48, 160 evenly spread ones and the neighbourhood of every 8192nd operation (internal piece
/// boundaries such as 64 KiB land there).
pub fn fault_positions(n: usize) -> Vec<usize> {
    if n <= 6000 {
        return (0..n).collect();
    }
    let mut v: Vec<usize> = (0..48).chain(n - 48..n).collect();
    for i in 0..160 {
        v.push(i * n / 160);
    }
    let mut b = 8192;
    while b < n {
        for d in [b - 1, b, b + 1, b + 40] {
            if d < n {
                v.push(d);
            }
        }
        b += 8192;
    }
    v.sort_unstable();
    v.dedup();
    v
}

/// Runs `f` on a freshly spawned thread: reference values (the clean bitstream, operation counts) must not
/// depend on what earlier failing writes may have left behind on the calling thread.
fn on_fresh_thread<R: Send>(f: impl FnOnce() -> R + Send) -> R {
    std::thread::scope(|sc| sc.spawn(f).join().expect("HARNESS: reference thread panicked"))
}

fn count_ops(comp: &Comp, required: bool) -> usize {
    if required {
        let mut s = ReqSink(Core::failing(None, false));
        comp.write(&mut s).expect("HARNESS: counting write failed");
        s.0.ops
    } else {
        let mut s = FullSink(Core::failing(None, false));
        comp.write(&mut s).expect("HARNESS: counting write failed");
        s.0.ops
    }
}

pub fn run(ctx: &crate::RunCtx) -> (Summary, Vec<Violation>) {
    let mut sum = Summary::new(
        "corpus item = small emitted stream (every subframe kind / stereo mode / width); its components (stream, stream with precomputed frames, \
         STREAMINFO, unknown metadata, each frame plain and precomputed, frame headers, subframes, residuals) are written to a user sink that fails at \
         operation k, for EVERY k of the clean write (components of more than 6000 sink operations: first/last 48, 160 spread, and around every 8192nd), in 6 flavours (required-only / all-overridden / required-only-with-a-zero-sized-error-type sink x fails-from-k / fails-only-at-k). \
         A case = (component, flavour, k); all are distinct; non-trivial = the failure hit a write with at least one accepted operation before it (k > 0).",
    );
    sum.exhaustive = Some(true);
    let mut viols = vec![];
    let mut n_case = 0u64;
    // the previous case executed by this child, with everything needed to run it again
    let mut prev: Option<(Case, std::sync::Arc<Comp>, std::sync::Arc<BitModel>, std::sync::Arc<Vec<u8>>)> = None;
    for idx in 0..ctx.count as usize {
        let Some(item) = corpus::try_build(ctx.seed, idx) else {
            continue;
        };
        if ctx.child == 0 {
            corpus::kinds(&item, &mut sum.probes);
        }
        let comps = match pan::catch(|| components(&item)) {
            Ok(c) => c,
            Err(_) => {
                *sum.probes.entry("components_unbuildable_skipped".into()).or_default() += 1;
                continue;
            }
        };
        for (name, comp) in comps {
            let comp = std::sync::Arc::new(comp);
            // a component whose clean write fails or panics cannot be swept; skipped and counted
            let clean_ok = on_fresh_thread(|| {
                pan::catch(|| {
                    let mut s = ByteSink::new();
                    comp.write(&mut s).is_ok()
                })
                .unwrap_or(false)
            });
            if !clean_ok {
                *sum.probes.entry("component_clean_write_fails_skipped".into()).or_default() += 1;
                continue;
            }
            let (cb, nbits) = on_fresh_thread(|| clean_bits(&comp));
            let clean = std::sync::Arc::new(BitModel::from_bytes(&cb, nbits));
            let cb = std::sync::Arc::new(cb);
            if comp.count_bits() != nbits {
                // not this property's business (C08); noted as a probe only
                *sum.probes.entry("count_bits_differs_from_written".into()).or_default() += 1;
            }
            for sink in ["required", "overridden", "required_unit_error", "required_io_error", "required_wrapped_io_error"] {
                let n = on_fresh_thread(|| count_ops(&comp, sink != "overridden"));
                if n > 6000 {
                    sum.exhaustive = Some(false);
                    if ctx.child == 0 {
                        *sum.probes.entry("large_component_fault_positions_sampled".into()).or_default() += 1;
                    }
                }
                for sticky in [true, false] {
                    // (the wrapped flavour differs from the plain io::Error one only in where the io::Error sits)
                    if sink == "required_wrapped_io_error" && sticky {
                        continue;
                    }
                    for k in fault_positions(n) {
                        n_case += 1;
                        if n_case % ctx.nchild != ctx.child {
                            continue;
                        }
                        let case = Case {
                            corpus_idx: idx,
                            spec: item.spec.clone(),
                            component: name.clone(),
                            sink: sink.into(),
                            sticky,
                            k,
                            prelude: None,
                        };
                        crate::progress::begin(&|| serde_json::to_value(&case).unwrap());
                        sum.cases += 1;
                        if k > 0 {
                            sum.distinct_nontrivial += 1;
                        }
                        *sum.fault_kinds.entry(format!("sink_error_{}_{}", sink, if sticky { "sticky" } else { "once" })).or_default() += 1;
                        let mut ops = 0;
                        let mut verdict = exec_case(&comp, &case, &clean, &cb, &mut ops);
                        if verdict.is_some() {
                            // Report what reproduces in a fresh thread (the replay file is executed in a fresh
                            // process): the case alone, or - if it needs what an earlier failing write left
                            // behind - the previous case of this thread followed by this one.
                            let run_alone = |with_prev: bool| {
                                std::thread::scope(|sc| {
                                    sc.spawn(|| {
                                        let mut o = 0;
                                        if with_prev {
                                            if let Some((pc, pcomp, pclean, pcb)) = &prev {
                                                let _ = exec_case(pcomp, pc, pclean, pcb, &mut o);
                                            }
                                        }
                                        exec_case(&comp, &case, &clean, &cb, &mut o)
                                    })
                                    .join()
                                    .ok()
                                    .flatten()
                                })
                            };
                            if let Some(v) = run_alone(false) {
                                verdict = Some(v);
                            } else if let Some(mut v) = run_alone(true) {
                                let mut c2 = case.clone();
                                c2.prelude = prev.as_ref().map(|(pc, _, _, _)| Box::new(pc.clone()));
                                v.case = serde_json::to_value(&c2).unwrap();
                                verdict = Some(v);
                            } else {
                                *sum.probes.entry("violation_not_reproducible_in_isolation_skipped".into()).or_default() += 1;
                                verdict = None;
                            }
                        }
                        prev = Some((case.clone(), std::sync::Arc::clone(&comp), std::sync::Arc::clone(&clean), std::sync::Arc::clone(&cb)));
                        sum.note(n_case, ops ^ verdict.as_ref().map_or(0, |v| crate::rng::fnv(&v.class) ^ crate::rng::fnv(&v.site)));
                        if let Some(v) = verdict {
                            *sum.classes.entry(v.class.clone()).or_default() += 1;
                            viols.push(v);
                        }
                        sum.seam_ops += ops;
                        if sum.samples.len() < 3 && k == n / 2 {
                            sum.samples.push(json!({"component": name, "sink": sink, "sticky": sticky, "k": k, "ops_of_clean_write": n, "corpus": item.spec}));
                        }
                    }
                }
            }
        }
    }
    // Endurance: 70 000 failing writes of a small frame (plain and precomputed) on ONE thread - whatever the
    // library counts or accumulates per failure must not tip over (the 65 536th failure is a failure like the first).
    if ctx.child == 0 {
        if let Some(item) = corpus::try_build(ctx.seed, 4) {
            // on a thread of its own, so that the replay (a fresh process, a fresh thread) sees the same history
            let case = json!({"endurance": {"rounds": 70_000}, "corpus_idx": 4, "spec": item.spec});
            crate::progress::begin(&|| case.clone());
            let (n, ops, v) = on_fresh_thread(|| endurance(&item, 70_000, &case));
            sum.cases += n;
            sum.seam_ops += ops;
            *sum.probes.entry("endurance_failing_writes_on_one_thread".into()).or_default() += n;
            if let Some(v) = v {
                *sum.classes.entry(v.class.clone()).or_default() += 1;
                viols.push(v);
            }
        }
    }
    if ctx.child == 0 {
        let n = corpus::INCONSISTENT.load(std::sync::atomic::Ordering::Relaxed);
        if n > 0 {
            sum.probes.insert("corpus_copy_serialises_differently".into(), n);
        }
        let u = corpus::UNBUILDABLE.load(std::sync::atomic::Ordering::Relaxed);
        if u > 0 {
            sum.probes.insert("corpus_item_unbuildable_skipped".into(), u);
        }
    }
    (sum, viols)
}

/// `rounds` failing writes of the first frame of a corpus item on the calling thread, alternating the plain and
/// the precomputed form, the failing operation walking through the write. Returns (writes done, sink operations,
/// first violation); the violation's case records the number of writes needed to reach it.
fn endurance(item: &corpus::CorpusItem, rounds: usize, case: &serde_json::Value) -> (u64, u64, Option<Violation>) {
    let Some(f) = item.stream.frame(0) else {
        return (0, 0, None);
    };
    let plain = Comp::Frame(f.clone());
    let mut fp = f.clone();
    fp.precompute_bitstream();
    let pre = Comp::Frame(fp);
    let (n_plain, n_pre) = (count_ops(&plain, true), count_ops(&pre, true));
    let (cb, nbits) = clean_bits(&plain);
    let clean = BitModel::from_bytes(&cb, nbits);
    let mut ops = 0u64;
    for round in 0..rounds {
        let (comp, n, name) = if round % 2 == 0 { (&plain, n_plain, "frame0") } else { (&pre, n_pre, "frame0_precomputed") };
        let k = round % n.max(1);
        let mut sink = ReqSink(Core::failing(Some(k), round % 3 == 0));
        let r = run_on(comp, &mut sink);
        ops += sink.0.ops as u64;
        let bad = match &r {
            Err(c) => Some(("panic", c.site.clone(), c.message.clone())),
            Ok(Outcome::Ok) if sink.0.errors > 0 => Some(("error_swallowed", String::new(), String::new())),
            Ok(Outcome::OtherErr(e)) => Some(("wrong_error", String::new(), e.clone())),
            _ => None,
        };
        let before = BitModel {
            bits: sink.0.model.bits[..sink.0.bits_before_error.unwrap_or(sink.0.model.len())].to_vec(),
        };
        let bad = bad.or_else(|| (!before.is_prefix_of(&clean)).then(|| ("not_a_prefix_after_earlier_failure", String::new(), String::new())));
        if let Some((class, site, message)) = bad {
            let mut case = case.clone();
            case["endurance"]["rounds"] = json!(round + 1);
            return (
                round as u64 + 1,
                ops,
                Some(Violation {
                    class: class.into(),
                    site,
                    message,
                    detail: format!("failing write number {} on one thread (sink fails at operation {k} of {name})", round + 1),
                    case,
                }),
            );
        }
    }
    (rounds as u64, ops, None)
}

/// Replays an endurance case on a fresh thread.
fn exec_endurance(v: &serde_json::Value) -> Result<Option<Violation>, String> {
    let rounds = v["endurance"]["rounds"].as_u64().unwrap_or(70_000) as usize;
    let spec: CorpusSpec = serde_json::from_value(v["spec"].clone()).map_err(|e| format!("bad endurance case: {e}"))?;
    let item = corpus::build_spec(4, spec);
    Ok(on_fresh_thread(|| endurance(&item, rounds, v)).2)
}

pub fn exec(case: &serde_json::Value) -> Result<Option<Violation>, String> {
    if case.get("endurance").is_some() {
        return exec_endurance(case);
    }
    let case: Case = serde_json::from_value(case.clone()).map_err(|e| format!("bad C12 case: {e}"))?;
    // Everything that is built (corpus items, components, clean references) is built BEFORE the first write
    // under test: building serialises frames on this thread, and nothing may happen between the earlier
    // failing write and the case that did not happen between them in the sweep.
    let prepare = |c: &Case| -> Result<(Comp, BitModel, Vec<u8>), String> {
        let item = corpus::build_spec(c.corpus_idx, c.spec.clone());
        let comp = components(&item)
            .into_iter()
            .find(|(n, _)| *n == c.component)
            .ok_or_else(|| format!("component {} not found", c.component))?
            .1;
        let (cb, nbits) = on_fresh_thread(|| clean_bits(&comp));
        Ok((comp, BitModel::from_bytes(&cb, nbits), cb))
    };
    let pre = match &case.prelude {
        Some(p) => {
            let mut p = (**p).clone();
            p.prelude = None;
            let x = prepare(&p)?;
            Some((p, x))
        }
        None => None,
    };
    let (comp, clean, cb) = prepare(&case)?;
    let mut ops = 0;
    if let Some((p, (pcomp, pclean, pcb))) = &pre {
        // the earlier failing write on this thread; its own verdict is not this case's
        let _ = exec_case(pcomp, p, pclean, pcb, &mut ops);
    }
    Ok(exec_case(&comp, &case, &clean, &cb, &mut ops))
}

/// Shrinks a violating case: smallest k, then smallest component, that still gives the same class+site.
pub fn minimise(case: &serde_json::Value, class: &str, site: &str) -> serde_json::Value {
    if case.get("endurance").is_some() {
        return case.clone();
    }
    let Ok(c0) = serde_json::from_value::<Case>(case.clone()) else {
        return case.clone();
    };
    if c0.prelude.is_some() {
        // a two-write history is already small; shrinking it would need the pair to be re-searched
        return case.clone();
    }
    let item = corpus::build_spec(c0.corpus_idx, c0.spec.clone());
    let comps = components(&item);
    let mut best = c0.clone();
    let mut best_size = usize::MAX;
    for (name, comp) in &comps {
        let (cb, nbits) = on_fresh_thread(|| clean_bits(comp));
        if nbits >= best_size {
            continue;
        }
        let clean = BitModel::from_bytes(&cb, nbits);
        let n = on_fresh_thread(|| count_ops(comp, c0.sink != "overridden"));
        for k in fault_positions(n) {
            let c = Case {
                component: name.clone(),
                k,
                ..c0.clone()
            };
            // every trial on its own thread: a trial must not inherit what the previous one left behind
            let verdict = on_fresh_thread(|| {
                let mut ops = 0;
                exec_case(comp, &c, &clean, &cb, &mut ops)
            });
            if let Some(v) = verdict {
                if v.class == class && v.site == site {
                    best = c;
                    best_size = nbits;
                    break;
                }
            }
        }
    }
    serde_json::to_value(best).unwrap()
}
