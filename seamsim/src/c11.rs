//! C11 — both in-memory sinks against an ideal MSB-first bit string, over
//! operation histories; and a required-methods-only user sink receiving every
//! component of the corpus.
//!
//! Part A: one operation at every start offset 0..63 (complete enumeration of a finite grid);
//! Part B: seeded operation sequences, compared after every operation;
//! Part C: corpus components through `ReqSink` / `FullSink` / `MemSink<u64>` vs `ByteSink`.

use crate::c12::{components, Comp};
use crate::corpus;
use crate::pan;
use crate::rng::{mix, Rng};
use crate::sinks::{BitModel, Core, FullSink, ReqSink};
use crate::{Summary, Violation};
use flacenc::bitsink::{BitSink, ByteSink, MemSink};
use serde::{Deserialize, Serialize};
use serde_json::json;
use std::convert::Infallible;

#[derive(Serialize, Deserialize, Clone, Debug, PartialEq)]
#[serde(tag = "op")]
pub enum Op {
    /// `write::<uT>(v)`, `t` = width in bits (8, 16, 32, 64)
    Write { t: u8, v: u64 },
    Msbs { t: u8, v: u64, n: usize },
    Lsbs { t: u8, v: u64, n: usize },
    /// `write_twoc::<iT>(v, w)`
    Twoc { t: u8, v: i64, w: usize },
    Zeros { n: usize },
    Align,
    Bytes { data: Vec<u8> },
    /// (in-memory sinks only) keep a `clone()` of the sink aside
    Snapshot,
    /// (in-memory sinks only) `sink.clone_from(&snapshot)`: the sink is again what it was at the snapshot
    Restore,
    /// (in-memory sinks only) continue on `sink.clone()`
    CloneSelf,
    /// (in-memory sinks only) `clear()`: the empty bit string
    Clear,
    /// (in-memory sinks only) `reserve(n)`: no visible change
    Reserve { n: usize },
}

fn mask(t: u8) -> u64 {
    if t >= 64 {
        u64::MAX
    } else {
        (1u64 << t) - 1
    }
}

pub fn apply_model(m: &mut BitModel, op: &Op) {
    match op {
        Op::Write { t, v } => m.push_msbs(*v & mask(*t), *t as usize, *t as usize),
        Op::Msbs { t, v, n } => m.push_msbs(*v & mask(*t), *t as usize, *n),
        Op::Lsbs { v, n, .. } => m.push_lsbs(*v, *n),
        Op::Twoc { v, w, .. } => m.push_lsbs(*v as u64, *w),
        Op::Zeros { n } => m.push_zeros(*n),
        Op::Align => {
            m.align();
        }
        Op::Bytes { data } => {
            m.align();
            for b in data {
                m.push_msbs(u64::from(*b), 8, 8);
            }
        }
        // life-cycle operations of the in-memory sinks are interpreted by `run_seq`
        Op::Snapshot | Op::Restore | Op::CloneSelf | Op::Clear | Op::Reserve { .. } => {}
    }
}

pub fn apply_sink<S: BitSink>(s: &mut S, op: &Op) -> Result<(), S::Error> {
    match op {
        Op::Write { t, v } => match t {
            8 => s.write(*v as u8),
            16 => s.write(*v as u16),
            32 => s.write(*v as u32),
            _ => s.write(*v),
        },
        Op::Msbs { t, v, n } => match t {
            8 => s.write_msbs(*v as u8, *n),
            16 => s.write_msbs(*v as u16, *n),
            32 => s.write_msbs(*v as u32, *n),
            _ => s.write_msbs(*v, *n),
        },
        Op::Lsbs { t, v, n } => match t {
            8 => s.write_lsbs(*v as u8, *n),
            16 => s.write_lsbs(*v as u16, *n),
            32 => s.write_lsbs(*v as u32, *n),
            _ => s.write_lsbs(*v, *n),
        },
        Op::Twoc { t, v, w } => match t {
            8 => s.write_twoc(*v as i8, *w),
            16 => s.write_twoc(*v as i16, *w),
            32 => s.write_twoc(*v as i32, *w),
            _ => s.write_twoc(*v, *w),
        },
        Op::Zeros { n } => s.write_zeros(*n),
        Op::Align => s.align_to_byte().map(|_| ()),
        Op::Bytes { data } => s.write_bytes_aligned(data).map(|_| ()),
        Op::Snapshot | Op::Restore | Op::CloneSelf | Op::Clear | Op::Reserve { .. } => Ok(()),
    }
}

/// What the harness reads from an in-memory sink (public API only).
pub trait Mem: BitSink<Error = Infallible> + Clone {
    const ELEM_BITS: usize;
    const NAME: &'static str;
    fn fresh() -> Self;
    fn bitlen(&self) -> usize;
    /// raw storage as big-endian bytes
    fn raw(&self) -> Vec<u8>;
    fn export(&self, nbytes: usize) -> Vec<u8>;
    fn bitstring(&self) -> String;
    fn clear_all(&mut self);
    fn reserve_bits(&mut self, n: usize);
    /// `into_inner()` as big-endian bytes
    fn inner(self) -> Vec<u8>;
}

impl Mem for MemSink<u8> {
    const ELEM_BITS: usize = 8;
    const NAME: &'static str = "MemSink<u8>";
    fn fresh() -> Self {
        Self::new()
    }
    fn bitlen(&self) -> usize {
        self.len()
    }
    fn raw(&self) -> Vec<u8> {
        self.as_slice().to_vec()
    }
    fn export(&self, nbytes: usize) -> Vec<u8> {
        let mut v = vec![0xEEu8; nbytes];
        self.write_to_byte_slice(&mut v);
        v
    }
    fn bitstring(&self) -> String {
        self.to_bitstring()
    }
    fn clear_all(&mut self) {
        self.clear();
    }
    fn reserve_bits(&mut self, n: usize) {
        self.reserve(n);
    }
    fn inner(self) -> Vec<u8> {
        self.into_inner()
    }
}

impl Mem for MemSink<u64> {
    const ELEM_BITS: usize = 64;
    const NAME: &'static str = "MemSink<u64>";
    fn fresh() -> Self {
        Self::new()
    }
    fn bitlen(&self) -> usize {
        self.len()
    }
    fn raw(&self) -> Vec<u8> {
        self.as_slice().iter().flat_map(|x| x.to_be_bytes()).collect()
    }
    fn export(&self, nbytes: usize) -> Vec<u8> {
        let mut v = vec![0xEEu8; nbytes];
        self.write_to_byte_slice(&mut v);
        v
    }
    fn bitstring(&self) -> String {
        self.to_bitstring()
    }
    fn clear_all(&mut self) {
        self.clear();
    }
    fn reserve_bits(&mut self, n: usize) {
        self.reserve(n);
    }
    fn inner(self) -> Vec<u8> {
        self.into_inner().iter().flat_map(|x| x.to_be_bytes()).collect()
    }
}

fn expected_bitstring(m: &BitModel, elem: usize) -> String {
    let mut s = String::new();
    let n = m.len();
    let total = (n + elem - 1) / elem * elem;
    for i in 0..total {
        if i > 0 && i % elem == 0 {
            s.push('_');
        }
        if i < n {
            s.push(if m.bits[i] { '1' } else { '0' });
        } else {
            s.push('*');
        }
    }
    s
}

/// Compares a sink with the model; returns (class, detail) on the first difference.
fn compare<S: Mem>(s: &S, m: &BitModel) -> Option<(&'static str, String)> {
    if s.bitlen() != m.len() {
        return Some(("length_mismatch", format!("sink.len() = {} but {} bits were written", s.bitlen(), m.len())));
    }
    let raw = s.raw();
    let want = m.to_bytes();
    let nbytes = want.len();
    if raw.len() < nbytes {
        return Some(("storage_too_short", format!("storage holds {} bytes, {} needed", raw.len(), nbytes)));
    }
    if raw[..nbytes] != want[..] {
        let at = raw.iter().zip(want.iter()).position(|(a, b)| a != b);
        // distinguish wrong written bits from a dirty tail inside the last byte
        let n = m.len();
        let written_ok = (0..n).all(|i| (raw[i / 8] & (0x80 >> (i % 8)) != 0) == m.bits[i]);
        return Some((
            if written_ok { "dirty_tail" } else { "bits_mismatch" },
            format!("storage differs from the ideal bit string at byte {at:?} (len {n} bits): got {:02x?}, want {:02x?}", &raw[..nbytes.min(24)], &want[..nbytes.min(24)]),
        ));
    }
    if raw[nbytes..].iter().any(|b| *b != 0) {
        return Some(("dirty_tail", format!("storage bits after the written length are not zero: {:02x?}", &raw[nbytes..])));
    }
    let elems = (m.len() + S::ELEM_BITS - 1) / S::ELEM_BITS;
    if raw.len() != elems * S::ELEM_BITS / 8 {
        return Some(("storage_length", format!("storage has {} bytes for {} bits (expected {})", raw.len(), m.len(), elems * S::ELEM_BITS / 8)));
    }
    let exp = s.export(nbytes);
    if exp != want {
        return Some(("export_mismatch", format!("write_to_byte_slice gives {:02x?}, want {:02x?}", &exp[..nbytes.min(24)], &want[..nbytes.min(24)])));
    }
    // a destination with room to spare (a caller's reusable buffer): the contents come first, and what follows
    // them is either left alone or the zero tail of the storage - never anything else
    let extra = [1usize, 5, 8, 12, 20][m.len() % 5];
    let exp = s.export(nbytes + extra);
    if exp[..nbytes] != want[..] || exp[nbytes..].iter().any(|b| *b != 0 && *b != 0xEE) {
        return Some((
            "export_mismatch",
            format!(
                "write_to_byte_slice into {} bytes for {} bytes of contents gives {:02x?} (tail {:02x?}), want {:02x?} followed by untouched (ee) or zero bytes",
                nbytes + extra,
                nbytes,
                &exp[..nbytes.min(24)],
                &exp[nbytes..],
                &want[..nbytes.min(24)]
            ),
        ));
    }
    let bs = s.bitstring();
    let eb = expected_bitstring(m, S::ELEM_BITS);
    if bs != eb {
        return Some(("bitstring_mismatch", format!("to_bitstring gives {bs:?}, want {eb:?}")));
    }
    None
}

#[derive(Serialize, Deserialize, Clone, Debug)]
pub struct SeqCase {
    pub part: String,
    /// "u8" or "u64"
    pub sink: String,
    pub ops: Vec<Op>,
}

/// Runs an op sequence on sink type S, comparing with the model after every op.
fn run_seq<S: Mem>(ops: &[Op], seam_ops: &mut u64) -> Option<(String, String, String, String)> {
    let r = pan::catch(|| {
        let mut s = S::fresh();
        let mut m = BitModel::default();
        let mut aside: Option<(S, BitModel)> = None;
        for (i, op) in ops.iter().enumerate() {
            match op {
                Op::Snapshot => aside = Some((s.clone(), m.clone())),
                Op::Restore => {
                    if let Some((a, am)) = &aside {
                        s.clone_from(a);
                        m = am.clone();
                    }
                }
                Op::CloneSelf => s = s.clone(),
                Op::Clear => {
                    s.clear_all();
                    m = BitModel::default();
                }
                Op::Reserve { n } => s.reserve_bits(*n),
                _ => {
                    let _ = apply_sink(&mut s, op);
                    apply_model(&mut m, op);
                }
            }
            if let Some((class, detail)) = compare(&s, &m) {
                return Some((class, format!("after op {i} ({op:?}) on {}: {detail}", S::NAME), i));
            }
            // a snapshot is a sink like any other: it keeps what it held when it was taken
            if let Some((a, am)) = &aside {
                if let Some((class, detail)) = compare(a, am) {
                    return Some((class, format!("the clone taken earlier, looked at after op {i} ({op:?}) on {}: {detail}", S::NAME), i));
                }
            }
        }
        // "identical byte export": what `into_inner` hands out is what `as_slice` showed
        let shown = s.raw();
        let handed = s.inner();
        if shown != handed {
            return Some(("export_mismatch", format!("into_inner() of {} gives {} bytes {:02x?}, as_slice() showed {} bytes {:02x?}", S::NAME, handed.len(), &handed[..handed.len().min(24)], shown.len(), &shown[..shown.len().min(24)]), ops.len()));
        }
        None
    });
    *seam_ops += ops.len() as u64;
    match r {
        Err(c) => Some(("panic".into(), c.site, c.message, format!("{} panicked during the sequence", S::NAME))),
        Ok(Some((class, detail, _))) => Some((class.into(), String::new(), String::new(), detail)),
        Ok(None) => None,
    }
}

fn run_case(case: &SeqCase, seam_ops: &mut u64) -> Option<Violation> {
    let r = if case.sink == "u8" {
        run_seq::<MemSink<u8>>(&case.ops, seam_ops)
    } else {
        run_seq::<MemSink<u64>>(&case.ops, seam_ops)
    };
    r.map(|(class, site, message, detail)| Violation {
        class,
        site,
        message,
        detail,
        case: serde_json::to_value(case).unwrap(),
    })
}

/// Part D: a sequence on the required-methods-only user sink, compared with the ideal bit string after every operation.
fn run_user_seq(case: &SeqCase, seam_ops: &mut u64) -> Option<Violation> {
    let mk = |class: &str, site: String, message: String, detail: String| {
        Some(Violation {
            class: class.into(),
            site,
            message,
            detail,
            case: serde_json::to_value(case).unwrap(),
        })
    };
    let mut sink = ReqSink(Core::failing(None, false));
    let mut ideal = BitModel::default();
    for (i, op) in case.ops.iter().enumerate() {
        let before = ideal.len();
        apply_model(&mut ideal, op);
        let want_pad = match op {
            Op::Align => Some((8 - before % 8) % 8),
            Op::Bytes { .. } => Some((8 - before % 8) % 8),
            _ => None,
        };
        let got = pan::catch(|| match op {
            Op::Align => sink.align_to_byte().map(Some),
            Op::Bytes { data } => sink.write_bytes_aligned(data).map(Some),
            other => apply_sink(&mut sink, other).map(|()| None),
        });
        *seam_ops += 1;
        match got {
            Err(c) => return mk("panic", c.site, c.message, format!("op {i} ({op:?}) on the required-methods-only user sink panicked")),
            Ok(Err(e)) => return mk("user_sink_write_failed", String::new(), format!("{e}"), format!("op {i} ({op:?}) returned an error on a sink that never fails")),
            Ok(Ok(pad)) => {
                if sink.0.model != ideal {
                    let at = sink.0.model.bits.iter().zip(ideal.bits.iter()).position(|(a, b)| a != b);
                    return mk(
                        "user_sink_bits_differ",
                        String::new(),
                        String::new(),
                        format!("after op {i} ({op:?}) the required-methods-only user sink holds {} bits, the ideal bit string {} (first difference at {at:?})", sink.0.model.len(), ideal.len()),
                    );
                }
                // (the returned pad counts are not part of the property: same length, same bits, same export)
                let _ = (pad, want_pad);
            }
        }
    }
    None
}

const WIDTHS: [u8; 4] = [8, 16, 32, 64];

fn patterns(t: u8) -> Vec<u64> {
    let m = mask(t);
    vec![0, m, 0xAAAA_AAAA_AAAA_AAAA & m, 0x5555_5555_5555_5555 & m, 1, 1u64 << (t - 1), 0x8000_0000_0000_0001 & m | 1]
}

fn part_a_ops() -> Vec<Op> {
    let mut v = vec![];
    for t in WIDTHS {
        for p in patterns(t) {
            v.push(Op::Write { t, v: p });
            for n in 0..=(t as usize) {
                v.push(Op::Msbs { t, v: p, n });
                v.push(Op::Lsbs { t, v: p, n });
            }
        }
        for w in 1..=64usize {
            let lo = if w >= 64 { i64::MIN } else { -(1i64 << (w - 1)) };
            let hi = if w >= 64 { i64::MAX } else { (1i64 << (w - 1)) - 1 };
            let tmin = -(1i128 << (t - 1));
            let tmax = (1i128 << (t - 1)) - 1;
            for val in [0i64, -1, 1, lo, hi, hi / 3 * 2] {
                // the value must be representable in the operand type iT
                if i128::from(val) >= tmin && i128::from(val) <= tmax {
                    v.push(Op::Twoc { t, v: val, w });
                }
            }
        }
    }
    for n in 0..=200usize {
        v.push(Op::Zeros { n });
    }
    v.push(Op::Align);
    for len in 0..=9usize {
        v.push(Op::Bytes {
            data: (0..len).map(|i| 0xA5u8.wrapping_add((i as u8).wrapping_mul(0x3B))).collect(),
        });
    }
    v
}

fn random_op(r: &mut Rng) -> Op {
    let t = *r.pick(&WIDTHS);
    let val = match r.below(4) {
        0 => 0,
        1 => u64::MAX,
        _ => r.next_u64(),
    } & mask(t);
    match r.below(16) {
        0 | 1 => Op::Write { t, v: val },
        2..=5 => Op::Msbs { t, v: val, n: r.below(t as usize + 1) },
        6..=9 => Op::Lsbs { t, v: val, n: r.below(t as usize + 1) },
        10 | 11 => {
            let w = 1 + r.below(64);
            let w_eff = w.min(t as usize);
            let lo = if w_eff >= 64 { i64::MIN } else { -(1i64 << (w_eff - 1)) };
            let hi = if w_eff >= 64 { i64::MAX } else { (1i64 << (w_eff - 1)) - 1 };
            let v = match r.below(4) {
                0 => lo,
                1 => hi,
                _ => lo.wrapping_add((r.next_u64() % ((hi as i128 - lo as i128 + 1) as u64).max(1)) as i64),
            };
            Op::Twoc { t, v, w }
        }
        12 | 13 => Op::Zeros {
            n: if r.chance(0.2) { r.below(300) } else { r.below(20) },
        },
        14 => Op::Align,
        _ => Op::Bytes {
            data: (0..r.below(10)).map(|_| r.next_u64() as u8).collect(),
        },
    }
}

#[derive(Serialize, Deserialize, Clone, Debug)]
pub struct CompCase {
    pub part: String,
    pub corpus_idx: usize,
    pub spec: corpus::CorpusSpec,
    pub component: String,
    /// "required", "overridden" or "u64"
    pub sink: String,
    /// number of 1-bits written before the component (the component then starts at a non-aligned offset)
    #[serde(default)]
    pub prefix_bits: usize,
    /// the calling thread has just had a write of the same component FAIL half-way (a user sink that
    /// reported an error); the serialisation under test follows on the same thread
    #[serde(default)]
    pub after_failed_write: bool,
}

fn with_prefix<S: BitSink>(s: &mut S, n: usize) -> Result<(), S::Error> {
    if n > 0 {
        s.write_lsbs(u64::MAX, n)?;
    }
    Ok(())
}

fn run_comp_case(comp: &Comp, case: &CompCase, seam_ops: &mut u64) -> Option<Violation> {
    let mk = |class: &str, site: String, message: String, detail: String| {
        Some(Violation {
            class: class.into(),
            site,
            message,
            detail,
            case: serde_json::to_value(case).unwrap(),
        })
    };
    // the reference is made on a fresh thread: it must not inherit anything from this thread's history
    let reference = std::thread::scope(|sc| {
        sc.spawn(|| {
            pan::catch(|| {
                let mut s = ByteSink::new();
                with_prefix(&mut s, case.prefix_bits).expect("HARNESS: prefix");
                comp.write(&mut s).map(|()| (s.len(), s.into_inner())).map_err(|e| format!("{e}"))
            })
        })
        .join()
        .expect("HARNESS: reference thread")
    });
    if case.after_failed_write {
        let n = {
            let mut probe = ReqSink(Core::failing(None, false));
            let _ = comp.write(&mut probe);
            probe.0.ops
        };
        let mut failing = ReqSink(Core::failing(Some(n / 2), true));
        let _ = pan::catch(|| comp.write(&mut failing).is_ok());
    }
    let (nbits, bytes) = match reference {
        Ok(Ok(x)) => x,
        Ok(Err(e)) => return mk("reference_write_failed", String::new(), e, "ByteSink write returned an error".into()),
        Err(c) => return mk("panic", c.site, c.message, "ByteSink write panicked".into()),
    };
    let want = BitModel::from_bytes(&bytes, nbits);
    if case.prefix_bits > 0 {
        // "the same bit sequence when any component is serialised": started at an unaligned cursor, the sink
        // must still receive the component's own bits (those it writes to an empty sink) as one contiguous run,
        // after the prefix and at most seven zero bits of alignment (how many is the component's business)
        let clean = std::thread::scope(|sc| {
            sc.spawn(|| {
                pan::catch(|| {
                    let mut s = ByteSink::new();
                    comp.write(&mut s).map(|()| (s.len(), s.into_inner())).map_err(|e| format!("{e}"))
                })
            })
            .join()
            .expect("HARNESS: reference thread")
        });
        if let Ok(Ok((cn, cb))) = clean {
            let clean = BitModel::from_bytes(&cb, cn);
            let rest = &want.bits[case.prefix_bits.min(want.bits.len())..];
            let ok = rest.len() >= clean.bits.len() && {
                let z = rest.len() - clean.bits.len();
                z < 8 && rest[..z].iter().all(|b| !*b) && rest[z..] == clean.bits[..]
            };
            if !ok {
                return mk(
                    "component_bits_not_contiguous_after_unaligned_start",
                    String::new(),
                    String::new(),
                    format!(
                        "{} written to a ByteSink after {} prefix bit(s): {} bits follow the prefix, which are not 0..7 zero bits and then the {} bits the component writes to an empty sink",
                        case.component,
                        case.prefix_bits,
                        rest.len(),
                        clean.bits.len()
                    ),
                );
            }
        }
    }
    let got: Result<Result<(BitModel, usize), String>, pan::Caught> = match case.sink.as_str() {
        "required" => pan::catch(|| {
            let mut s = ReqSink(Core::failing(None, false));
            with_prefix(&mut s, case.prefix_bits).expect("HARNESS: prefix");
            comp.write(&mut s).map(|()| (s.0.model.clone(), s.0.ops)).map_err(|e| format!("{e}"))
        }),
        "overridden" => pan::catch(|| {
            let mut s = FullSink(Core::failing(None, false));
            with_prefix(&mut s, case.prefix_bits).expect("HARNESS: prefix");
            comp.write(&mut s).map(|()| (s.0.model.clone(), s.0.ops)).map_err(|e| format!("{e}"))
        }),
        _ => pan::catch(|| {
            let mut s = MemSink::<u64>::new();
            with_prefix(&mut s, case.prefix_bits).expect("HARNESS: prefix");
            comp.write(&mut s)
                .map(|()| {
                    let n = s.len();
                    let mut b = vec![0u8; (n + 7) / 8];
                    s.write_to_byte_slice(&mut b);
                    (BitModel::from_bytes(&b, n), 1)
                })
                .map_err(|e| format!("{e}"))
        }),
    };
    match got {
        Err(c) => mk("panic", c.site, c.message, format!("writing {} to the {} sink panicked", case.component, case.sink)),
        Ok(Err(e)) => mk("user_sink_write_failed", String::new(), e, format!("writing {} to the {} sink failed", case.component, case.sink)),
        Ok(Ok((m, ops))) => {
            *seam_ops += ops as u64;
            if m != want {
                let at = m.bits.iter().zip(want.bits.iter()).position(|(a, b)| a != b);
                mk(
                    "user_sink_bits_differ",
                    String::new(),
                    String::new(),
                    format!("{} through the {} sink: {} bits, ByteSink: {} bits, first difference at {at:?}", case.component, case.sink, m.len(), want.len()),
                )
            } else {
                None
            }
        }
    }
}

pub fn run(ctx: &crate::RunCtx) -> (Summary, Vec<Violation>) {
    let mut sum = Summary::new(
        "Part A (complete grid): sink in {MemSink<u8>, MemSink<u64>} x start offset 0..63 x one operation (write / write_msbs / write_lsbs for u8..u64 with every n in 0..=width and 7 value \
         patterns, write_twoc for i8..i64 with every width 1..64, write_zeros 0..200, align_to_byte, write_bytes_aligned 0..9 bytes) followed by five 0-bits and five 1-bits; \
         Part B: seeded random operation sequences of length 1..60, compared with the ideal bit string after every operation (len, bits, zero tail, storage length, write_to_byte_slice, to_bitstring); \
         Part C: every component of the corpus written to a required-methods-only user sink, an all-methods user sink and MemSink<u64>, compared bit for bit with ByteSink. \
         distinct = every Part A/C case is distinct by construction, Part B sequences are counted by hash; non-trivial = the sequence leaves or crosses a storage-word boundary unaligned \
         (start offset not a multiple of 8, or any operation with a bit count that is not a multiple of 8).",
    );
    let mut viols = vec![];
    let mut n_case = 0u64;
    let mut seam_ops = 0u64;
    // ---- Part A
    let ops = part_a_ops();
    for sink in ["u8", "u64"] {
        for offset in 0..64usize {
            for op in &ops {
                n_case += 1;
                if n_case % ctx.nchild != ctx.child {
                    continue;
                }
                let mut seq = vec![];
                if offset > 0 {
                    seq.push(Op::Lsbs {
                        t: 64,
                        v: 0xAAAA_AAAA_AAAA_AAAA & ((1u64 << offset) - 1),
                        n: offset,
                    });
                }
                seq.push(op.clone());
                seq.push(Op::Lsbs { t: 8, v: 0, n: 5 });
                seq.push(Op::Lsbs { t: 8, v: 0x1F, n: 5 });
                let case = SeqCase {
                    part: "A".into(),
                    sink: sink.into(),
                    ops: seq,
                };
                crate::progress::begin(&|| serde_json::to_value(&case).unwrap());
                sum.cases += 1;
                if offset % 8 != 0 || !matches!(op, Op::Align) {
                    sum.distinct_nontrivial += 1;
                }
                *sum.ops_hist.entry(format!("A_{}", op_name(op))).or_default() += 1;
                let ops0 = seam_ops;
                let verdict = run_case(&case, &mut seam_ops);
                sum.note(n_case, (seam_ops - ops0) ^ verdict.as_ref().map_or(0, |v| crate::rng::fnv(&v.class)));
                if let Some(v) = verdict {
                    *sum.classes.entry(v.class.clone()).or_default() += 1;
                    viols.push(v);
                }
                if sum.samples.len() < 2 && n_case % 50021 == 0 {
                    sum.samples.push(serde_json::to_value(&case).unwrap());
                }
            }
        }
    }
    // ---- Part B
    let mut seen = std::collections::BTreeSet::new();
    for j in 0..ctx.count {
        n_case += 1;
        if n_case % ctx.nchild != ctx.child {
            continue;
        }
        let mut r = Rng::new(mix(ctx.seed, 0xC11_B000 + j));
        let len = 1 + r.below(60);
        let lifecycle = r.chance(0.33);
        let ops: Vec<Op> = (0..len)
            .map(|_| {
                if lifecycle && r.chance(0.2) {
                    match r.below(6) {
                        0 | 1 => Op::Snapshot,
                        2 => Op::Restore,
                        3 => Op::CloneSelf,
                        4 => Op::Clear,
                        _ => Op::Reserve { n: r.below(300) },
                    }
                } else {
                    random_op(&mut r)
                }
            })
            .collect();
        let case = SeqCase {
            part: "B".into(),
            sink: if r.chance(0.5) { "u8" } else { "u64" }.into(),
            ops,
        };
        crate::progress::begin(&|| serde_json::to_value(&case).unwrap());
        sum.cases += 1;
        let h = crate::rng::fnv(&serde_json::to_string(&case).unwrap());
        if seen.insert(h) {
            sum.distinct_nontrivial += 1;
        }
        for op in &case.ops {
            *sum.ops_hist.entry(format!("B_{}", op_name(op))).or_default() += 1;
        }
        let ops0 = seam_ops;
                let verdict = run_case(&case, &mut seam_ops);
                sum.note(n_case, (seam_ops - ops0) ^ verdict.as_ref().map_or(0, |v| crate::rng::fnv(&v.class)));
                if let Some(v) = verdict {
            *sum.classes.entry(v.class.clone()).or_default() += 1;
            viols.push(v);
        }
        if sum.samples.len() < 4 && j % 9973 == 0 {
            sum.samples.push(serde_json::to_value(&case).unwrap());
        }
    }
    // ---- Part D: operation sequences on a required-methods-only user sink. The provided trait methods
    // (write_bytes_aligned, write_twoc, write_zeros) run the library's default implementations; the bits
    // the sink receives through its four required methods must be the ideal bit string.
    for j in 0..(ctx.count / 4).max(200) {
        n_case += 1;
        if n_case % ctx.nchild != ctx.child {
            continue;
        }
        let mut r = Rng::new(mix(ctx.seed, 0xC11_D000 + j));
        let len = 1 + r.below(24);
        let ops: Vec<Op> = (0..len)
            .map(|_| if r.chance(0.35) { Op::Bytes { data: (0..r.below(4)).map(|_| r.next_u64() as u8).collect() } } else { random_op(&mut r) })
            .collect();
        let case = SeqCase {
            part: "D".into(),
            sink: "required".into(),
            ops,
        };
        crate::progress::begin(&|| serde_json::to_value(&case).unwrap());
        sum.cases += 1;
        let h = crate::rng::fnv(&serde_json::to_string(&case).unwrap());
        if seen.insert(h) {
            sum.distinct_nontrivial += 1;
        }
        for op in &case.ops {
            *sum.ops_hist.entry(format!("D_{}", op_name(op))).or_default() += 1;
        }
        let ops0 = seam_ops;
        let verdict = run_user_seq(&case, &mut seam_ops);
        sum.note(n_case, (seam_ops - ops0) ^ verdict.as_ref().map_or(0, |v| crate::rng::fnv(&v.class)));
        if let Some(v) = verdict {
            *sum.classes.entry(v.class.clone()).or_default() += 1;
            viols.push(v);
        }
    }
    // ---- Part C
    let ncorpus = if ctx.tier == "thorough" { 300 } else { 40 };
    for idx in 0..ncorpus {
        let Some(item) = corpus::try_build(ctx.seed, idx) else {
            continue;
        };
        if ctx.child == 0 {
            corpus::kinds(&item, &mut sum.probes);
        }
        for (name, comp) in components(&item) {
            for (sink, prefix_bits, after_failed_write) in [
                ("required", 0usize, false),
                ("overridden", 0, false),
                ("u64", 0, false),
                ("required", 3, false),
                ("overridden", 5, false),
                ("u64", 61, false),
                ("required", 0, true),
                ("u64", 0, true),
            ] {
                // whole streams start with the marker and are only meaningful from offset 0
                if prefix_bits > 0 && name.starts_with("stream") {
                    continue;
                }
                n_case += 1;
                if n_case % ctx.nchild != ctx.child {
                    continue;
                }
                let case = CompCase {
                    part: "C".into(),
                    corpus_idx: idx,
                    spec: item.spec.clone(),
                    component: name.clone(),
                    sink: sink.into(),
                    prefix_bits,
                    after_failed_write,
                };
                crate::progress::begin(&|| serde_json::to_value(&case).unwrap());
                sum.cases += 1;
                sum.distinct_nontrivial += 1;
                *sum.ops_hist.entry(format!("C_{sink}{}", if prefix_bits > 0 { "_unaligned_start" } else if after_failed_write { "_after_failed_write" } else { "" })).or_default() += 1;
                let ops0 = seam_ops;
                let mut verdict = run_comp_case(&comp, &case, &mut seam_ops);
                if verdict.is_some() {
                    // report what the case does on its own (fresh thread): the replay file is one case in
                    // a fresh process; a difference that needs what EARLIER cases left behind on this
                    // thread is a matter of call history (C10), counted here and not reported
                    let alone = std::thread::scope(|sc| {
                        sc.spawn(|| {
                            let mut o = 0;
                            run_comp_case(&comp, &case, &mut o)
                        })
                        .join()
                        .ok()
                        .flatten()
                    });
                    if alone.is_none() {
                        *sum.probes.entry("violation_not_reproducible_in_isolation_skipped".into()).or_default() += 1;
                    }
                    verdict = alone;
                }
                sum.note(n_case, (seam_ops - ops0) ^ verdict.as_ref().map_or(0, |v| crate::rng::fnv(&v.class)));
                if let Some(v) = verdict {
                    *sum.classes.entry(v.class.clone()).or_default() += 1;
                    viols.push(v);
                }
            }
        }
    }
    if ctx.child == 0 {
        let n = corpus::INCONSISTENT.load(std::sync::atomic::Ordering::Relaxed);
        if n > 0 {
            sum.probes.insert("corpus_copy_serialises_differently".into(), n);
        }
        let u = corpus::UNBUILDABLE.load(std::sync::atomic::Ordering::Relaxed);
        if u > 0 {
            sum.probes.insert("corpus_item_unbuildable_skipped".into(), u);
        }
    }
    sum.seam_ops = seam_ops;
    if sum.samples.is_empty() {
        sum.samples.push(json!({"part": "A", "note": "see rule"}));
    }
    (sum, viols)
}

fn op_name(op: &Op) -> &'static str {
    match op {
        Op::Write { .. } => "write",
        Op::Msbs { .. } => "write_msbs",
        Op::Lsbs { .. } => "write_lsbs",
        Op::Twoc { .. } => "write_twoc",
        Op::Zeros { .. } => "write_zeros",
        Op::Align => "align_to_byte",
        Op::Bytes { .. } => "write_bytes_aligned",
        Op::Snapshot => "clone",
        Op::Restore => "clone_from",
        Op::CloneSelf => "continue_on_clone",
        Op::Clear => "clear",
        Op::Reserve { .. } => "reserve",
    }
}

pub fn exec(case: &serde_json::Value) -> Result<Option<Violation>, String> {
    let part = case.get("part").and_then(|p| p.as_str()).unwrap_or("");
    let mut ops = 0;
    if part == "C" {
        let c: CompCase = serde_json::from_value(case.clone()).map_err(|e| format!("bad C11 case: {e}"))?;
        let item = corpus::build_spec(c.corpus_idx, c.spec.clone());
        let comp = components(&item)
            .into_iter()
            .find(|(n, _)| *n == c.component)
            .ok_or_else(|| format!("component {} not found", c.component))?
            .1;
        Ok(run_comp_case(&comp, &c, &mut ops))
    } else {
        let c: SeqCase = serde_json::from_value(case.clone()).map_err(|e| format!("bad C11 case: {e}"))?;
        if c.part == "D" {
            return Ok(run_user_seq(&c, &mut ops));
        }
        Ok(run_case(&c, &mut ops))
    }
}

/// Shrinks an operation sequence: drop operations one at a time, then shrink operands, while the
/// same class (and panic site) persists.
pub fn minimise(case: &serde_json::Value, class: &str, site: &str) -> serde_json::Value {
    let Ok(mut c) = serde_json::from_value::<SeqCase>(case.clone()) else {
        return case.clone();
    };
    let same = |c: &SeqCase| {
        let mut o = 0;
        if c.part == "D" {
            return matches!(run_user_seq(c, &mut o), Some(v) if v.class == class && v.site == site);
        }
        run_case(c, &mut o).map_or(false, |v| v.class == class && v.site == site)
    };
    if !same(&c) {
        return case.clone();
    }
    let mut progress = true;
    while progress {
        progress = false;
        let mut i = 0;
        while i < c.ops.len() {
            let mut t = c.clone();
            t.ops.remove(i);
            if !t.ops.is_empty() && same(&t) {
                c = t;
                progress = true;
            } else {
                i += 1;
            }
        }
        for i in 0..c.ops.len() {
            let cands: Vec<Op> = match &c.ops[i] {
                Op::Msbs { t, v, n } => vec![Op::Msbs { t: 8, v: *v & 0xFF, n: (*n).min(8) }, Op::Msbs { t: *t, v: 0, n: *n }, Op::Msbs { t: *t, v: *v, n: n / 2 }],
                Op::Lsbs { t, v, n } => vec![Op::Lsbs { t: 8, v: *v & 0xFF, n: (*n).min(8) }, Op::Lsbs { t: *t, v: 0, n: *n }, Op::Lsbs { t: *t, v: *v, n: n / 2 }],
                Op::Zeros { n } if *n > 0 => vec![Op::Zeros { n: n / 2 }, Op::Zeros { n: n - 1 }],
                Op::Bytes { data } if !data.is_empty() => vec![Op::Bytes { data: data[..data.len() - 1].to_vec() }],
                Op::Write { t, v } if *v != 0 => vec![Op::Write { t: *t, v: 0 }],
                _ => vec![],
            };
            for cand in cands {
                if cand == c.ops[i] {
                    continue;
                }
                let mut t = c.clone();
                t.ops[i] = cand;
                if same(&t) {
                    c = t;
                    progress = true;
                    break;
                }
            }
        }
    }
    serde_json::to_value(c).unwrap()
}
