//! Panic capture: a silent hook that records message and location per thread,
//! and `catch`, which turns a panic of library code into a value.

use std::cell::RefCell;
use std::panic::{self, AssertUnwindSafe};

#[derive(Clone, Debug)]
pub struct Caught {
    pub message: String,
    /// `src/...:line` relative to the repository root when the panic comes from the library
    pub site: String,
}

thread_local! {
    static LAST: RefCell<Option<Caught>> = const { RefCell::new(None) };
    static DEPTH: std::cell::Cell<usize> = const { std::cell::Cell::new(0) };
}

pub fn short_site(file: &str, line: u32) -> String {
    let f = match file.rfind("/src/") {
        Some(i) if !file.contains("/.cargo/") && !file.contains("/rustc/") => &file[i + 1..],
        _ => file,
    };
    format!("{f}:{line}")
}

pub fn install() {
    panic::set_hook(Box::new(|info| {
        let message = if let Some(s) = info.payload().downcast_ref::<&str>() {
            (*s).to_owned()
        } else if let Some(s) = info.payload().downcast_ref::<String>() {
            s.clone()
        } else {
            "<non-string panic payload>".to_owned()
        };
        let site = info
            .location()
            .map_or_else(|| "<unknown>".to_owned(), |l| short_site(l.file(), l.line()));
        if DEPTH.with(std::cell::Cell::get) == 0 {
            // a panic of the harness itself, outside any observed call
            eprintln!("HARNESS-ERROR: panic outside an observed call at {site}: {message}");
        }
        LAST.with(|l| *l.borrow_mut() = Some(Caught { message, site }));
    }));
}

/// Runs `f`; a panic becomes `Err(Caught)`.
pub fn catch<R>(f: impl FnOnce() -> R) -> Result<R, Caught> {
    LAST.with(|l| *l.borrow_mut() = None);
    DEPTH.with(|d| d.set(d.get() + 1));
    let r = panic::catch_unwind(AssertUnwindSafe(f));
    DEPTH.with(|d| d.set(d.get() - 1));
    match r {
        Ok(r) => Ok(r),
        Err(_) => Err(LAST.with(|l| l.borrow_mut().take()).unwrap_or(Caught {
            message: "<panic without hook record>".into(),
            site: "<unknown>".into(),
        })),
    }
}

/// Message with digits collapsed (stable part of a signature / report).
pub fn norm_msg(m: &str) -> String {
    let mut out = String::new();
    let mut last_digit = false;
    for c in m.chars().take(160) {
        if c.is_ascii_digit() {
            if !last_digit {
                out.push('#');
            }
            last_digit = true;
        } else {
            last_digit = false;
            out.push(if c == '\n' { ' ' } else { c });
        }
    }
    out
}
