//! C14 — integer and packed-byte sample delivery are equivalent.
//!
//! The sample source / the caller of the `Fill` operations is the simulated
//! peer: it delivers the SAME audio under different scripts (per read: as
//! `i32`s or as packed little-endian bytes; full blocks, shorter blocks, a full
//! block followed by a shorter one into the same buffer) and the observable
//! results must not depend on the script:
//!
//! * `stream`  — `encode_with_fixed_block_size` (single-thread here; the
//!   multi-thread slice runs in parsim as C14P) gives identical bytes for
//!   all-ints, all-bytes and several mixed scripts with the same read lengths;
//! * `framebuf` — a `FrameBuf` driven through a sequence of fills (ints or
//!   bytes, 1..4 bytes per sample) is encoded after every fill with
//!   `encode_fixed_size_frame`; the frame bytes must equal those of a fresh
//!   buffer filled once with that block as integers (stale samples of a longer
//!   earlier block must not leak, whichever path wrote them);
//! * `context` — `Context` (MD5 / sample count / frame counter) and the tuple
//!   `(FrameBuf, Context)` agree after every step between an all-ints replica,
//!   an all-bytes replica and the scripted mix.

use crate::pan;
use crate::rng::{fnv, mix, Rng};
use crate::simsource::{to_le_bytes, SimSource};
use crate::workload::{fresh_small, CfgSpec, ReadPlan, Workload, BITS};
use crate::{Summary, Violation};
use flacenc::bitsink::ByteSink;
use flacenc::component::{BitRepr, StreamInfo};
use flacenc::source::{Context, Fill, FrameBuf};
use serde::{Deserialize, Serialize};
use serde_json::json;
use std::collections::BTreeSet;

#[derive(Serialize, Deserialize, Clone, Debug, PartialEq)]
pub struct FillStep {
    /// inter-channel samples in this fill (0..=capacity)
    pub len: usize,
    /// 0 = `fill_interleaved`, n = `fill_le_bytes(.., n)`
    pub bps: usize,
    /// (buffer cases) this block belongs to a stream of another sample width than the case's: the buffer
    /// object is recycled between streams. The frame is encoded, and its reference made, with that width.
    #[serde(default, skip_serializing_if = "Option::is_none")]
    pub bits: Option<usize>,
}

#[derive(Serialize, Deserialize, Clone, Debug, PartialEq)]
#[serde(tag = "kind")]
pub enum Case {
    Stream {
        w: Workload,
        /// read seeds of the mixed scripts compared with the all-ints script
        mixed_seeds: Vec<u64>,
    },
    FrameBuf {
        channels: usize,
        bits: usize,
        capacity: usize,
        cfg: CfgSpec,
        data_seed: u64,
        steps: Vec<FillStep>,
        /// go through `&mut FrameBuf` / the `(FrameBuf, Context)` tuple instead of the buffer itself
        via_tuple: bool,
        /// the buffer was created with this size and `resize`d to `capacity` before the first fill
        #[serde(default)]
        resize_from: Option<usize>,
    },
    Context {
        channels: usize,
        bits: usize,
        data_seed: u64,
        steps: Vec<FillStep>,
    },
}

fn viol(class: &str, site: &str, detail: String, case: &Case) -> Violation {
    Violation {
        class: class.into(),
        site: site.into(),
        message: String::new(),
        detail,
        case: serde_json::to_value(case).unwrap(),
    }
}

fn panic_viol(c: &pan::Caught, what: &str, case: &Case) -> Violation {
    Violation {
        class: "panic".into(),
        site: c.site.clone(),
        message: c.message.clone(),
        detail: format!("{what} panicked"),
        case: serde_json::to_value(case).unwrap(),
    }
}

/// Samples inside the declared width, biased towards the extremes.
fn gen_block(r: &mut Rng, bits: usize, n: usize) -> Vec<i32> {
    let hi: i64 = (1i64 << (bits - 1)) - 1;
    let lo: i64 = -(1i64 << (bits - 1));
    let style = r.below(4);
    (0..n)
        .map(|_| {
            let v = match (style, r.below(10)) {
                (0, _) => r.range(lo, hi),
                (_, 0) => lo,
                (_, 1) => hi,
                (_, 2) => -1,
                (_, 3) => 0,
                (1, _) => r.range(-200, 200).clamp(lo, hi),
                (2, _) => *r.pick(&[lo, hi, lo + 1, hi - 1, -1, 0, 1]),
                _ => r.range(lo, hi),
            };
            v.clamp(lo, hi) as i32
        })
        .collect()
}

fn first_diff(a: &[u8], b: &[u8]) -> String {
    let n = a.len().min(b.len());
    let at = (0..n).find(|i| a[*i] != b[*i]).or(if a.len() == b.len() { None } else { Some(n) });
    format!("len {} vs {}, first differing byte {:?}", a.len(), b.len(), at)
}

fn encode_stream(w: &Workload) -> Result<Vec<u8>, String> {
    encode_stream_with(w, None)
}

fn encode_stream_with(w: &Workload, plan: Option<Vec<ReadPlan>>) -> Result<Vec<u8>, String> {
    let mut src = SimSource::new(w);
    if let Some(p) = plan {
        src.set_plan(p);
    }
    let cfg = w.cfg.build(false, None, w.config_block());
    let st = flacenc::encode_with_fixed_block_size(&cfg, &mut src, w.block).map_err(|e| format!("{e}"))?;
    let mut sink = ByteSink::new();
    st.write(&mut sink).map_err(|e| format!("write: {e}"))?;
    Ok(sink.into_inner())
}

fn frame_bytes(cfg: &CfgSpec, fb: &FrameBuf, si: &StreamInfo, cap: usize) -> Result<Vec<u8>, String> {
    let cfg = cfg.build(false, None, cap);
    let f = flacenc::encode_fixed_size_frame(&cfg, fb, 0, si).map_err(|e| format!("{e}"))?;
    let mut sink = ByteSink::new();
    f.write(&mut sink).map_err(|e| format!("write: {e}"))?;
    Ok(sink.into_inner())
}

/// `off`: the byte slice starts `off` bytes into its allocation (address parity / alignment of the slice
/// is the peer's business: a reader hands over whatever part of its buffer holds the block).
fn do_fill_at<F: Fill>(dest: &mut F, block: &[i32], bps: usize, off: usize) -> Result<(), String> {
    if bps == 0 {
        dest.fill_interleaved(block).map_err(|e| format!("{e}"))
    } else {
        let mut bb = vec![];
        to_le_bytes(block, bps, &mut bb);
        bb.splice(0..0, std::iter::repeat(0xEEu8).take(off));
        dest.fill_le_bytes(&bb[off..], bps).map_err(|e| format!("{e}"))
    }
}

fn do_fill<F: Fill>(dest: &mut F, block: &[i32], bps: usize) -> Result<(), String> {
    do_fill_at(dest, block, bps, 0)
}

pub struct Stats {
    pub ops: u64,
}

fn exec_stream(case: &Case, w: &Workload, mixed_seeds: &[u64], stats: &mut Stats) -> Option<Violation> {
    let mut base = w.clone();
    base.delivery = 0;
    base.faults.clear();
    let reference = match pan::catch(|| encode_stream(&base)) {
        Err(c) => return Some(panic_viol(&c, "all-integer delivery", case)),
        Ok(r) => r,
    };
    stats.ops += base.plan_reads().len() as u64 + 1;
    // every script keeps the read LENGTHS of the reference; only the representation per read varies
    let lens: Vec<usize> = base.plan_reads().iter().map(|p| p.len).collect();
    let mut scripts: Vec<(String, Vec<ReadPlan>)> = vec![];
    scripts.push(("all-bytes".into(), lens.iter().map(|l| ReadPlan { len: *l, bytes: true }).collect()));
    for s in mixed_seeds {
        let mut rr = Rng::new(*s);
        scripts.push((
            format!("mixed({s})"),
            lens.iter()
                .map(|l| ReadPlan {
                    len: *l,
                    bytes: rr.chance(0.5),
                })
                .collect(),
        ));
    }
    for (name, plan) in &scripts {
        let got = match pan::catch(|| encode_stream_with(&base, Some(plan.clone()))) {
            Err(c) => return Some(panic_viol(&c, &format!("{name} delivery"), case)),
            Ok(r) => r,
        };
        stats.ops += plan.len() as u64 + 1;
        if got != reference {
            let d = match (&got, &reference) {
                (Ok(a), Ok(b)) => first_diff(a, b),
                (a, b) => format!("{:?} vs {:?}", a.as_ref().map(Vec::len), b.as_ref().map(Vec::len)),
            };
            return Some(viol(
                "delivery_mode_mismatch",
                "stream",
                format!("{name} delivery of the same audio gave a different stream than all-integer delivery: {d}"),
                case,
            ));
        }
    }
    None
}

#[allow(clippy::too_many_arguments)]
fn exec_framebuf(
    case: &Case,
    channels: usize,
    bits: usize,
    capacity: usize,
    cfg: &CfgSpec,
    data_seed: u64,
    steps: &[FillStep],
    via_tuple: bool,
    resize_from: Option<usize>,
    stats: &mut Stats,
) -> Result<Option<Violation>, String> {
    let si = StreamInfo::new(44100, channels, bits).map_err(|e| format!("HARNESS: stream info: {e}"))?;
    let mut r = Rng::new(data_seed);
    let mut fb = FrameBuf::with_size(channels, resize_from.unwrap_or(capacity)).map_err(|e| format!("HARNESS: framebuf: {e}"))?;
    if resize_from.is_some() {
        fb.resize(capacity);
    }
    let mut ctx = Context::new(bits, channels);
    for (i, st) in steps.iter().enumerate() {
        if i == steps.len() / 2 && i > 0 && data_seed % 3 == 0 {
            // go on with a clone of the buffer (it must behave exactly like the original)
            let c = fb.clone();
            fb = c;
        }
        let step_bits = st.bits.unwrap_or(bits);
        let si = if step_bits == bits { si.clone() } else { StreamInfo::new(44100, channels, step_bits).map_err(|e| format!("HARNESS: stream info: {e}"))? };
        let block = gen_block(&mut r, step_bits, st.len * channels);
        let res = pan::catch(|| {
            if via_tuple && step_bits == bits && (st.bps == 0 || st.bps == ctx.bytes_per_sample()) {
                let mut t = (&mut fb, &mut ctx);
                do_fill_at(&mut t, &block, st.bps, (i * 3 + 1) % 8)
            } else {
                do_fill_at(&mut &mut fb, &block, st.bps, (i * 3 + 1) % 8)
            }
        });
        stats.ops += 1;
        match res {
            Err(c) => return Ok(Some(panic_viol(&c, &format!("fill #{i} ({} samples, bps {})", st.len, st.bps), case))),
            Ok(Err(e)) => {
                return Ok(Some(viol(
                    "valid_fill_rejected",
                    "framebuf",
                    format!("fill #{i} of {} samples (<= capacity {capacity}) with bps {} was rejected: {e}", st.len, st.bps),
                    case,
                )))
            }
            Ok(Ok(())) => {}
        }
        if data_seed % 3 == 1 && i % 2 == 1 {
            // the frame is encoded from a clone made after the fill (a copy handed to another part of the
            // program): it must hold what the original holds
            let c = fb.clone();
            fb = c;
        }
        if fb.filled_size() != st.len {
            return Ok(Some(viol(
                "delivery_mode_mismatch",
                "framebuf",
                format!("after fill #{i} (bps {}) filled_size() = {} but {} samples were delivered", st.bps, fb.filled_size(), st.len),
                case,
            )));
        }
        if st.len == 0 {
            continue;
        }
        // reference: a fresh buffer filled once, as integers
        let mut fresh = FrameBuf::with_size(channels, capacity).map_err(|e| format!("HARNESS: framebuf: {e}"))?;
        if let Err(e) = fresh.fill_interleaved(&block) {
            return Ok(Some(viol(
                "valid_fill_rejected",
                "framebuf",
                format!("a fresh buffer of capacity {capacity} rejected an integer fill of {} samples: {e}", st.len),
                case,
            )));
        }
        let want = pan::catch(|| frame_bytes(cfg, &fresh, &si, capacity));
        let got = pan::catch(|| frame_bytes(cfg, &fb, &si, capacity));
        stats.ops += 2;
        match (got, want) {
            (Err(c), _) => return Ok(Some(panic_viol(&c, &format!("encoding the buffer after fill #{i}"), case))),
            (_, Err(c)) => return Ok(Some(panic_viol(&c, "encoding the reference buffer", case))),
            (Ok(g), Ok(w)) => {
                if g != w {
                    let d = match (&g, &w) {
                        (Ok(a), Ok(b)) => first_diff(a, b),
                        (a, b) => format!("{a:?} vs {b:?}"),
                    };
                    let hist: Vec<String> = steps[..=i].iter().map(|s| format!("{}@{}", s.len, if s.bps == 0 { "ints".into() } else { format!("{}B", s.bps) })).collect();
                    return Ok(Some(viol(
                        "delivery_mode_mismatch",
                        "framebuf",
                        format!("frame encoded from the buffer after fills [{}] differs from a fresh buffer filled once with the last block as integers: {d}", hist.join(", ")),
                        case,
                    )));
                }
            }
        }
    }
    Ok(None)
}

fn ctx_obs(c: &Context) -> ([u8; 16], usize, Option<usize>) {
    (c.md5_digest(), c.total_samples(), c.current_frame_number())
}

fn exec_context(case: &Case, channels: usize, bits: usize, data_seed: u64, steps: &[FillStep], stats: &mut Stats) -> Option<Violation> {
    let mut r = Rng::new(data_seed);
    let mut scripted = Context::new(bits, channels);
    let mut ints = Context::new(bits, channels);
    let mut bytes = Context::new(bits, channels);
    let bps = scripted.bytes_per_sample();
    // half-way through, the all-bytes replica is replaced by a CLONE of itself (a context that was
    // copied mid-stream must go on exactly like the original)
    let clone_at = steps.len() / 2;
    for (i, st) in steps.iter().enumerate() {
        if i == clone_at && i > 0 {
            let c = bytes.clone();
            bytes = c;
        }
        let block = gen_block(&mut r, bits, st.len * channels);
        let res = pan::catch(|| {
            let a = do_fill_at(&mut scripted, &block, st.bps, (i * 3 + 1) % 8);
            let b = do_fill(&mut ints, &block, 0);
            let c = do_fill(&mut bytes, &block, bps);
            (a, b, c)
        });
        stats.ops += 3;
        let (a, b, c) = match res {
            Err(c) => return Some(panic_viol(&c, &format!("context fill #{i} ({} samples, bps {})", st.len, st.bps), case)),
            Ok(x) => x,
        };
        for (name, x) in [("scripted", &a), ("all-ints", &b), ("all-bytes", &c)] {
            if let Err(e) = x {
                return Some(viol("valid_fill_rejected", "context", format!("{name} context rejected fill #{i} ({} samples): {e}", st.len), case));
            }
        }
        let (os, oi, ob) = (ctx_obs(&scripted), ctx_obs(&ints), ctx_obs(&bytes));
        if os != oi || oi != ob {
            return Some(viol(
                "delivery_mode_mismatch",
                "context",
                format!(
                    "after fill #{i} ({} samples, scripted bps {}): (md5, total, frame) scripted {:02x?}/{}/{:?}, all-ints {:02x?}/{}/{:?}, all-bytes {:02x?}/{}/{:?}",
                    st.len, st.bps, &os.0[..4], os.1, os.2, &oi.0[..4], oi.1, oi.2, &ob.0[..4], ob.1, ob.2
                ),
                case,
            ));
        }
    }
    None
}

pub fn exec_case(case: &Case, stats: &mut Stats) -> Result<Option<Violation>, String> {
    match case {
        Case::Stream { w, mixed_seeds } => Ok(exec_stream(case, w, mixed_seeds, stats)),
        Case::FrameBuf {
            channels,
            bits,
            capacity,
            cfg,
            data_seed,
            steps,
            via_tuple,
            resize_from,
        } => exec_framebuf(case, *channels, *bits, *capacity, cfg, *data_seed, steps, *via_tuple, *resize_from, stats),
        Case::Context {
            channels,
            bits,
            data_seed,
            steps,
        } => Ok(exec_context(case, *channels, *bits, *data_seed, steps, stats)),
    }
}

const CAPS: &[usize] = &[32, 33, 48, 63, 64, 65, 100, 128, 255, 256, 257, 576];

fn gen_steps(r: &mut Rng, cap: usize, bps_choices: &[usize]) -> Vec<FillStep> {
    let n = 2 + r.below(5);
    let mut steps = vec![];
    for i in 0..n {
        let len = match (i, r.below(8)) {
            (0, 0..=5) => cap, // usually: a full block first
            (_, 0) => 0,
            (_, 1) => 1,
            (_, 2) => cap - 1,
            (_, 3) => cap,
            (_, 4) => cap / 2,
            (_, 5) => 31.min(cap),
            _ => r.below(cap + 1),
        };
        steps.push(FillStep {
            len,
            bps: *r.pick(bps_choices),
            bits: None,
        });
    }
    steps
}

pub fn gen_case(seed: u64, index: u64) -> Case {
    let mut r = Rng::new(mix(seed, 0xC14_0000 + index));
    match r.below(10) {
        0..=2 => {
            let mut w = fresh_small(&mut r);
            w.faults.clear();
            w.delivery = 0;
            w.short_reads = r.chance(0.3);
            Case::Stream {
                w,
                mixed_seeds: vec![r.next_u64(), r.next_u64(), r.next_u64()],
            }
        }
        3..=6 => {
            let channels = if r.chance(0.3) { 2 } else { 1 + r.below(8) };
            let bits = *r.pick(BITS);
            let capacity = *r.pick(CAPS);
            let good = (bits + 7) / 8;
            // at the buffer level any bytes-per-sample that can hold the values is a valid delivery
            let mut choices = vec![0usize, 0, good, good];
            for b in good + 1..=4 {
                choices.push(b);
            }
            let mut cfg = CfgSpec::random(&mut r);
            if cfg.rice_max + 8 < bits {
                cfg.rice_max = 14;
            }
            // The values are loud (extremes of the width). Predictive coding of wide loud noise makes the
            // library build frames of many megabytes before it falls back (C09's business) - verbatim /
            // constant subframes expose the buffer contents directly and are what this check needs.
            if bits >= 20 || r.chance(0.5) {
                cfg.use_lpc = false;
                cfg.use_fixed = false;
            }
            let mut steps = gen_steps(&mut r, capacity, &choices);
            // a buffer recycled between streams of different widths (verbatim / constant configurations only:
            // they expose the buffer directly and stay cheap at every width)
            if !cfg.use_lpc && !cfg.use_fixed && r.chance(0.4) {
                for st in steps.iter_mut().skip(1) {
                    if r.chance(0.6) {
                        let b = *r.pick(BITS);
                        let g = (b + 7) / 8;
                        st.bits = Some(b);
                        st.bps = if r.chance(0.5) { 0 } else { g + r.below(5 - g) };
                    }
                }
            }
            Case::FrameBuf {
                channels,
                bits,
                capacity,
                cfg,
                data_seed: r.next_u64(),
                steps,
                via_tuple: r.chance(0.4),
                resize_from: if r.chance(0.25) { Some(*r.pick(CAPS)).filter(|f| *f != capacity) } else { None },
            }
        }
        _ => {
            let channels = 1 + r.below(8);
            let bits = match r.below(4) {
                0 => 1 + r.below(32),
                1 => *r.pick(&[25usize, 28, 32]),
                _ => *r.pick(BITS),
            };
            let good = (bits + 7) / 8;
            let cap = *r.pick(CAPS);
            Case::Context {
                channels,
                bits,
                data_seed: r.next_u64(),
                steps: gen_steps(&mut r, cap, &[0, good]),
            }
        }
    }
}

fn case_kind(c: &Case) -> &'static str {
    match c {
        Case::Stream { .. } => "stream",
        Case::FrameBuf { .. } => "framebuf",
        Case::Context { .. } => "context",
    }
}

/// Non-trivial: the script actually mixes representations, or refills a buffer with a shorter block.
fn nontrivial(c: &Case) -> bool {
    match c {
        Case::Stream { w, .. } => w.total_samples() > 0,
        Case::FrameBuf { steps, .. } | Case::Context { steps, .. } => {
            let mixes = steps.iter().any(|s| s.bps == 0) && steps.iter().any(|s| s.bps != 0);
            let shrinks = steps.windows(2).any(|p| p[1].len < p[0].len && p[1].len > 0);
            mixes || shrinks
        }
    }
}

pub fn run(ctx: &crate::RunCtx) -> (Summary, Vec<Violation>) {
    let mut sum = Summary::new(
        "a case = one delivery script for the same audio: (stream) single-thread encode with all-ints vs all-bytes vs per-read mixed delivery, \
         optionally with short non-final reads; (framebuf) 2..6 fills of one FrameBuf (full block first, then shorter / empty / full ones) as ints or \
         as 1..4-byte LE samples, directly, through &mut, or through the (FrameBuf, Context) tuple, each followed by encode_fixed_size_frame and \
         compared with a fresh buffer filled once as ints; (context) the same fill scripts on Context for widths 1..32 bits, compared after every \
         step with an all-ints and an all-bytes replica (MD5, sample count, frame counter). Values are biased to the extremes of the width. \
         distinct = distinct case hashes; non-trivial = the script mixes representations or refills with a shorter block (stream: non-empty input).",
    );
    let mut viols = vec![];
    let mut distinct = BTreeSet::new();
    let mut stats = Stats { ops: 0 };
    for i in 0..ctx.count {
        if i % ctx.nchild != ctx.child {
            continue;
        }
        let case = gen_case(ctx.seed, i);
        crate::progress::begin(&|| serde_json::to_value(&case).unwrap());
        sum.cases += 1;
        *sum.ops_hist.entry(case_kind(&case).into()).or_default() += 1;
        if let Case::FrameBuf { steps, .. } | Case::Context { steps, .. } = &case {
            for s in steps {
                *sum.probes.entry(format!("fill_bps_{}", s.bps)).or_default() += 1;
            }
            if steps.windows(2).any(|p| p[1].len < p[0].len && p[1].len > 0) {
                *sum.probes.entry("refill_with_shorter_block".into()).or_default() += 1;
            }
        }
        if nontrivial(&case) && distinct.insert(fnv(&serde_json::to_string(&case).unwrap())) {
            sum.distinct_nontrivial += 1;
        }
        let t0 = std::time::Instant::now();
        let ops0 = stats.ops;
        match exec_case(&case, &mut stats) {
            Ok(Some(v)) => {
                sum.note(i, (stats.ops - ops0) ^ fnv(&v.class) ^ fnv(&v.site));
                *sum.classes.entry(v.class.clone()).or_default() += 1;
                viols.push(v);
            }
            Ok(None) => sum.note(i, stats.ops - ops0),
            Err(e) => crate::harness_error(&e),
        }
        if std::env::var_os("VERIF_TRACE_SLOW").is_some() && t0.elapsed().as_millis() > 100 {
            eprintln!("SLOW {} ms: case {i}: {}", t0.elapsed().as_millis(), serde_json::to_string(&case).unwrap());
        }
        if sum.samples.len() < 3 && i >= 3 * ctx.nchild && case_kind(&case) != sum.samples.last().and_then(|s: &serde_json::Value| s.get("kind")).and_then(|k| k.as_str()).unwrap_or("") {
            let mut v = serde_json::to_value(&case).unwrap();
            v.as_object_mut().unwrap().insert("index".into(), json!(i));
            sum.samples.push(v);
        }
    }
    sum.seam_ops = stats.ops;
    (sum, viols)
}

pub fn exec(case: &serde_json::Value) -> Result<Option<Violation>, String> {
    let case: Case = serde_json::from_value(case.clone()).map_err(|e| format!("bad C14 case: {e}"))?;
    let mut stats = Stats { ops: 0 };
    exec_case(&case, &mut stats)
}

/// Shrinks fill scripts by dropping steps, stream cases by cheaper shapes, while class and site persist.
pub fn minimise(case: &serde_json::Value, class: &str, site: &str) -> serde_json::Value {
    let Ok(mut c) = serde_json::from_value::<Case>(case.clone()) else {
        return case.clone();
    };
    let mut stats = Stats { ops: 0 };
    let mut same = |c: &Case| matches!(exec_case(c, &mut stats), Ok(Some(v)) if v.class == class && v.site == site);
    let mut progress = true;
    while progress {
        progress = false;
        let cands: Vec<Case> = match &c {
            Case::FrameBuf { steps, .. } | Case::Context { steps, .. } => (0..steps.len())
                .filter(|_| steps.len() > 1)
                .map(|i| {
                    let mut n = c.clone();
                    if let Case::FrameBuf { steps, .. } | Case::Context { steps, .. } = &mut n {
                        steps.remove(i);
                    }
                    n
                })
                .collect(),
            Case::Stream { w, mixed_seeds } => {
                let mut v = vec![];
                let mut push = |f: &dyn Fn(&mut Workload)| {
                    let mut n = w.clone();
                    f(&mut n);
                    if n != *w {
                        v.push(Case::Stream {
                            w: n,
                            mixed_seeds: mixed_seeds.clone(),
                        });
                    }
                };
                push(&|n| n.nfull /= 2);
                push(&|n| n.residue = 0);
                push(&|n| {
                    n.channels = 1;
                    n.sig_kinds.truncate(1);
                });
                push(&|n| n.cfg = CfgSpec { use_lpc: false, ..CfgSpec::default_spec() });
                push(&|n| n.short_reads = false);
                push(&|n| n.block = 32.min(n.block));
                v.into_iter()
                    .map(|mut c| {
                        if let Case::Stream { w, .. } = &mut c {
                            w.residue = w.residue.min(w.block - 1);
                        }
                        c
                    })
                    .collect()
            }
        };
        for n in cands {
            if same(&n) {
                c = n;
                progress = true;
                break;
            }
        }
    }
    serde_json::to_value(c).unwrap()
}
