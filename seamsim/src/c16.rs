//! C16 — stored-byte faults between the writer and the parser.
//!
//! `FaultyStore`: the bytes emitted by `Stream::write` are altered (single-bit
//! flip, burst of up to 8 bits, truncation, random bytes, splice) before
//! `parser::stream` reads them.

use crate::corpus::{self, CorpusItem, CorpusSpec};
use crate::pan;
use crate::rng::{mix, Rng};
use crate::{Summary, Violation};
use flacenc::component::parser;
use flacenc::component::{Decode, Stream};
use serde::{Deserialize, Serialize};
use serde_json::json;

#[derive(Serialize, Deserialize, Clone, Debug, PartialEq)]
#[serde(tag = "kind")]
pub enum StoreFault {
    /// flip bit `bit` (0 = MSB of byte 0)
    Flip { bit: usize },
    /// xor `mask` (its top bit is the first altered bit) into the 8 bits starting at `bit`
    Burst { bit: usize, mask: u8 },
    /// keep only the first `len` bytes
    Truncate { len: usize },
    /// replace the file by `len` pseudo-random bytes from `seed` (with the fLaC marker when `marker`)
    Random { seed: u64, len: usize, marker: bool },
    /// first `a` bytes of this stream followed by the bytes of corpus item `other` from offset `b`
    Splice { a: usize, other: usize, b: usize },
    /// a lost sector: `len` bytes from `at` read back as zeros (never-panics half only)
    ZeroRange { at: usize, len: usize },
    /// a lost write: `len` bytes from `at` are missing (never-panics half only)
    Delete { at: usize, len: usize },
    /// a duplicated write: `len` bytes from `at` appear twice (never-panics half only)
    Duplicate { at: usize, len: usize },
    /// byte `at` of the frame that occupies `start..start+frame_len` (header of `header_len` bytes incl. its
    /// CRC-8) is set to `value`, and then the checksums are RECOMPUTED over the altered bytes - what a
    /// tool that "repairs" checksums, or a crafted file, looks like (never-panics half only)
    ChecksumFix { at: usize, value: u8, start: usize, header_len: usize, frame_len: usize },
}

fn crc8(bytes: &[u8]) -> u8 {
    let mut c = 0u8;
    for b in bytes {
        c ^= *b;
        for _ in 0..8 {
            c = if c & 0x80 != 0 { (c << 1) ^ 0x07 } else { c << 1 };
        }
    }
    c
}

fn crc16(bytes: &[u8]) -> u16 {
    let mut c = 0u16;
    for b in bytes {
        c ^= u16::from(*b) << 8;
        for _ in 0..8 {
            c = if c & 0x8000 != 0 { (c << 1) ^ 0x8005 } else { c << 1 };
        }
    }
    c
}

#[derive(Serialize, Deserialize, Clone, Debug)]
pub struct Case {
    pub corpus_idx: usize,
    pub spec: CorpusSpec,
    pub fault: StoreFault,
    /// corpus seed (needed to rebuild the `other` item of a splice)
    pub corpus_seed: u64,
}

pub fn apply(bytes: &[u8], f: &StoreFault, other: Option<&[u8]>) -> Vec<u8> {
    let mut b = bytes.to_vec();
    match f {
        StoreFault::Flip { bit } => {
            b[bit / 8] ^= 0x80 >> (bit % 8);
        }
        StoreFault::Burst { bit, mask } => {
            for i in 0..8 {
                if mask & (0x80 >> i) != 0 {
                    let p = bit + i;
                    if p / 8 < b.len() {
                        b[p / 8] ^= 0x80 >> (p % 8);
                    }
                }
            }
        }
        StoreFault::Truncate { len } => b.truncate(*len),
        StoreFault::Random { seed, len, marker } => {
            let mut r = Rng::new(*seed);
            b = (0..*len).map(|_| r.next_u64() as u8).collect();
            if *marker && b.len() >= 4 {
                b[..4].copy_from_slice(b"fLaC");
            }
        }
        StoreFault::Splice { a, b: off, .. } => {
            b.truncate(*a);
            if let Some(o) = other {
                b.extend_from_slice(&o[(*off).min(o.len())..]);
            }
        }
        StoreFault::ZeroRange { at, len } => {
            let end = (*at + *len).min(b.len());
            for x in &mut b[(*at).min(end)..end] {
                *x = 0;
            }
        }
        StoreFault::Delete { at, len } => {
            let end = (*at + *len).min(b.len());
            b.drain((*at).min(end)..end);
        }
        StoreFault::Duplicate { at, len } => {
            let end = (*at + *len).min(b.len());
            let dup: Vec<u8> = b[(*at).min(end)..end].to_vec();
            let tail = b.split_off(end);
            b.extend_from_slice(&dup);
            b.extend_from_slice(&tail);
        }
        StoreFault::ChecksumFix { at, value, start, header_len, frame_len } => {
            if *start + *frame_len <= b.len() && *at < b.len() && *header_len >= 2 && *frame_len >= *header_len + 2 {
                b[*at] = *value;
                if *at < *start + *header_len - 1 {
                    b[*start + *header_len - 1] = crc8(&b[*start..*start + *header_len - 1]);
                }
                let c = crc16(&b[*start..*start + *frame_len - 2]);
                b[*start + *frame_len - 2] = (c >> 8) as u8;
                b[*start + *frame_len - 1] = (c & 0xFF) as u8;
            }
        }
    }
    b
}

/// First and last altered bit (inclusive) of a fault, if it is a localised alteration.
fn span(f: &StoreFault) -> Option<(usize, usize)> {
    match f {
        StoreFault::Flip { bit } => Some((*bit, *bit)),
        StoreFault::Burst { bit, mask } => {
            let first = mask.leading_zeros() as usize;
            let last = 7 - mask.trailing_zeros() as usize;
            Some((bit + first, bit + last))
        }
        _ => None,
    }
}

pub fn decode_stream(s: &Stream) -> Vec<i32> {
    let mut out = vec![];
    for n in 0..s.frame_count() {
        out.extend(s.frame(n).unwrap().decode());
    }
    out
}

pub enum Parsed {
    Rejected,
    /// accepted: decoded audio (or the panic of `decode`) and total frames
    Accepted(Result<Vec<i32>, pan::Caught>, usize),
}

pub fn parse(bytes: &[u8]) -> Result<Parsed, pan::Caught> {
    let r = pan::catch(|| crate::nomshim::parse_stream(bytes));
    match r {
        Err(c) => Err(c),
        Ok(None) => Ok(Parsed::Rejected),
        Ok(Some(stream)) => {
            let n = stream.frame_count();
            let d = pan::catch(|| decode_stream(&stream));
            Ok(Parsed::Accepted(d, n))
        }
    }
}

pub struct Baseline {
    pub audio: Vec<i32>,
    pub frame_start_bit: usize,
}

/// Outcome classes counted as coverage.
pub fn exec_case(item: &CorpusItem, base: &Baseline, fault: &StoreFault, other: Option<&[u8]>, case: &dyn Fn() -> serde_json::Value, sum: Option<&mut Summary>) -> Option<Violation> {
    crate::progress::begin(case);
    let mutated = apply(&item.bytes, fault, other);
    let in_frames = span(fault).map_or(false, |(first, _)| first >= base.frame_start_bit);
    let mut note = |k: &str| {
        if let Some(s) = sum {
            *s.outcomes.entry(k.to_owned()).or_default() += 1;
        }
    };
    match parse(&mutated) {
        Err(c) => Some(Violation {
            class: "panic".into(),
            site: c.site.clone(),
            message: c.message.clone(),
            detail: format!("parser::stream panicked on {fault:?} ({} bytes)", mutated.len()),
            case: case(),
        }),
        Ok(Parsed::Rejected) => {
            note(if in_frames { "rejected_in_frame" } else { "rejected_other" });
            None
        }
        Ok(Parsed::Accepted(dec, _n)) => {
            if !in_frames {
                note("accepted_outside_frames");
                return None;
            }
            match dec {
                Ok(a) if a == base.audio => {
                    note("accepted_in_frame_identical_audio");
                    None
                }
                Ok(a) => Some(Violation {
                    class: "altered_frame_accepted".into(),
                    site: String::new(),
                    message: String::new(),
                    detail: format!(
                        "{fault:?} inside the frame region was accepted with different audio ({} vs {} samples, first difference at {:?})",
                        a.len(),
                        base.audio.len(),
                        a.iter().zip(base.audio.iter()).position(|(x, y)| x != y)
                    ),
                    case: case(),
                }),
                Err(c) => Some(Violation {
                    class: "altered_frame_accepted".into(),
                    site: c.site.clone(),
                    message: c.message.clone(),
                    detail: format!("{fault:?} inside the frame region was accepted and its decode() panicked"),
                    case: case(),
                }),
            }
        }
    }
}

pub fn baseline(item: &CorpusItem) -> Option<Baseline> {
    match parse(&item.bytes) {
        Ok(Parsed::Accepted(Ok(audio), _)) => Some(Baseline {
            audio,
            frame_start_bit: corpus::frame_region_start(&item.bytes) * 8,
        }),
        _ => None,
    }
}

/// All faults enumerated for one item at this tier.
/// Large streams (more than 4 KiB) get a sampled version of the enumeration plus what only they can
/// show: whole lost sectors (long zeroed ranges).
fn faults_for_large(item: &CorpusItem, tier_thorough: bool) -> Vec<StoreFault> {
    let len = item.bytes.len();
    let mut v = vec![];
    for bit in 0..len * 8 {
        if bit < 1024 * 8 || bit % 53 == 0 {
            v.push(StoreFault::Flip { bit });
        }
    }
    for l in (0..len).step_by(97) {
        v.push(StoreFault::Truncate { len: l });
    }
    for at in (0..len).step_by(257) {
        for l in [16usize, 512] {
            v.push(StoreFault::ZeroRange { at, len: l });
            v.push(StoreFault::Delete { at, len: l });
            v.push(StoreFault::Duplicate { at, len: l });
        }
    }
    // lost sectors: 4 KiB .. 32 KiB of zeros on a 1 KiB grid
    for at in (0..len).step_by(1024) {
        for l in [4096usize, 16500, 20000, 32768] {
            if at + l / 2 < len {
                v.push(StoreFault::ZeroRange { at, len: l });
            }
        }
    }
    for byte in (0..len).step_by(if tier_thorough { 7 } else { 61 }) {
        for m in [0xFFu8, 0x81, 0xC3, 0x7E, 0x03] {
            v.push(StoreFault::Burst { bit: byte * 8, mask: m });
        }
    }
    v
}

fn faults_for(item: &CorpusItem, idx: usize, tier_thorough: bool) -> Vec<StoreFault> {
    if item.bytes.len() > 4096 {
        return faults_for_large(item, tier_thorough);
    }
    let nbits = item.bytes.len() * 8;
    let mut v = vec![];
    for bit in 0..nbits {
        v.push(StoreFault::Flip { bit });
    }
    for len in 0..item.bytes.len() {
        v.push(StoreFault::Truncate { len });
    }
    // header bytes (every value) and the first body bytes of every frame, with the checksums recomputed
    let mut start = corpus::frame_region_start(&item.bytes);
    for n in 0..item.stream.frame_count() {
        use flacenc::component::BitRepr;
        let f = item.stream.frame(n).unwrap();
        let frame_len = f.count_bits() / 8;
        let header_len = f.header().count_bits() / 8;
        if start + frame_len > item.bytes.len() || header_len < 2 || frame_len < header_len + 2 {
            break;
        }
        // the harness's own CRCs must reproduce the clean frame, otherwise the fault model is wrong
        if crc8(&item.bytes[start..start + header_len - 1]) != item.bytes[start + header_len - 1]
            || crc16(&item.bytes[start..start + frame_len - 2]) != u16::from_be_bytes([item.bytes[start + frame_len - 2], item.bytes[start + frame_len - 1]])
        {
            break;
        }
        for off in (0..header_len - 1).chain(header_len..(header_len + 3).min(frame_len - 2)) {
            for value in 0..=255u8 {
                if value != item.bytes[start + off] {
                    v.push(StoreFault::ChecksumFix {
                        at: start + off,
                        value,
                        start,
                        header_len,
                        frame_len,
                    });
                }
            }
        }
        start += frame_len;
    }
    // lost, zeroed and duplicated byte ranges at every byte position (torn / lost / repeated writes)
    for at in 0..item.bytes.len() {
        for len in [1usize, 2, 4, 16] {
            v.push(StoreFault::ZeroRange { at, len });
            v.push(StoreFault::Delete { at, len });
            v.push(StoreFault::Duplicate { at, len });
        }
    }
    if tier_thorough {
        // every burst: start bit x mask whose first bit is set (width 2..=8)
        for bit in 0..nbits {
            for m in 0x81u16..=0xFF {
                let m = m as u8;
                v.push(StoreFault::Burst { bit, mask: m });
            }
        }
    } else if idx % 3 == 0 {
        // quick: every non-zero mask at every byte position, for a third of the corpus
        for byte in 0..item.bytes.len() {
            for m in 1..=255u8 {
                if m.count_ones() >= 2 {
                    v.push(StoreFault::Burst { bit: byte * 8, mask: m });
                }
            }
        }
    }
    v
}

pub fn run(ctx: &crate::RunCtx) -> (Summary, Vec<Violation>) {
    let mut sum = Summary::new(
        "corpus item = small emitted stream; faults on the stored bytes before parser::stream: EVERY single-bit flip, EVERY truncation length, zeroed / deleted / duplicated ranges of 1, 2, 4, 16 bytes at EVERY byte position (never-panics half), every value of every frame-header byte and of the first body bytes with the CRC-8 / CRC-16 recomputed afterwards (never-panics half), \
         bursts (quick: every multi-bit mask at every byte position for a third of the corpus; thorough: every start bit x every mask of width 2..8 with first and last bit set), \
         plus seeded random byte strings and splices. Streams larger than 4 KiB (a 96 KB frame, 32 KB frames at the maximum block size) get a sampled version plus zeroed ranges of 4-32 KiB (lost sectors). A case = (stream, fault); all enumerated cases are distinct; non-trivial = the altered bytes got past the \
         marker and STREAMINFO into the frame parser (fault at or after the first frame byte, or a random/spliced file that keeps a valid header).",
    );
    sum.exhaustive = Some(true);
    let thorough = ctx.tier == "thorough";
    // (streams larger than 4 KiB are sampled, see faults_for_large; the flag is cleared below if one is present)
    let mut viols = vec![];
    let mut n_case = 0u64;
    // (an item the library cannot even build is replaced by the empty stream's item 19, which always builds
    // to a STREAMINFO-only file, so that positions in `items` keep matching corpus indices)
    let items: Vec<CorpusItem> = (0..ctx.count as usize)
        .map(|i| corpus::try_build(ctx.seed, i).unwrap_or_else(|| corpus::build(ctx.seed, 19)))
        .collect();
    for item in &items {
        if item.bytes.len() > 4096 {
            sum.exhaustive = Some(false);
        }
        if ctx.child == 0 {
            corpus::kinds(item, &mut sum.probes);
        }
        let Some(base) = baseline(item) else {
            if ctx.child == 0 {
                *sum.probes.entry("baseline_rejected".into()).or_default() += 1;
            }
            if std::env::var("VERIF_DEBUG").is_ok() {
                eprintln!("baseline rejected: item {} {:?}", item.idx, item.spec);
            }
            continue;
        };
        if base.audio != item.audio {
            // C15's business; the corrupted-stream oracle compares against what the parser decodes from the clean file
            if ctx.child == 0 {
                *sum.probes.entry("baseline_decodes_differently_from_input".into()).or_default() += 1;
            }
        }
        for fault in faults_for(item, item.idx, thorough) {
            n_case += 1;
            if n_case % ctx.nchild != ctx.child {
                continue;
            }
            sum.cases += 1;
            sum.seam_ops += 1;
            let kind = match &fault {
                StoreFault::Flip { .. } => "bit_flip",
                StoreFault::Burst { .. } => "burst",
                StoreFault::Truncate { .. } => "truncate",
                StoreFault::Random { .. } => "random_bytes",
                StoreFault::Splice { .. } => "splice",
                StoreFault::ZeroRange { .. } => "zero_range",
                StoreFault::Delete { .. } => "delete_range",
                StoreFault::Duplicate { .. } => "duplicate_range",
                StoreFault::ChecksumFix { .. } => "altered_byte_with_recomputed_checksums",
            };
            *sum.fault_kinds.entry(kind.into()).or_default() += 1;
            if span(&fault).map_or(false, |(f, _)| f >= base.frame_start_bit) {
                sum.distinct_nontrivial += 1;
            }
            let mk = || {
                serde_json::to_value(Case {
                    corpus_idx: item.idx,
                    spec: item.spec.clone(),
                    fault: fault.clone(),
                    corpus_seed: ctx.seed,
                })
                .unwrap()
            };
            if let Some(v) = exec_case(item, &base, &fault, None, &mk, Some(&mut sum)) {
                *sum.classes.entry(v.class.clone()).or_default() += 1;
                viols.push(v);
            }
            if sum.samples.len() < 3 && n_case % 977 == 0 {
                sum.samples.push(json!({"stream_bytes": item.bytes.len(), "fault": fault, "corpus": item.spec}));
            }
        }
    }
    // seeded part: random byte strings and splices (no-panic half only, no claim of depth)
    let n_seeded: u64 = if thorough { 200_000 } else { 20_000 };
    for j in 0..n_seeded {
        n_case += 1;
        if n_case % ctx.nchild != ctx.child || items.is_empty() {
            continue;
        }
        let mut r = Rng::new(mix(ctx.seed, 0xC16_5EED + j));
        let item = &items[r.below(items.len())];
        let fault = if r.chance(0.5) {
            StoreFault::Random {
                seed: r.next_u64(),
                len: r.below(200),
                marker: r.chance(0.7),
            }
        } else {
            let o = r.below(items.len());
            StoreFault::Splice {
                a: r.below(item.bytes.len() + 1),
                other: o,
                b: r.below(items[o].bytes.len() + 1),
            }
        };
        let other = match &fault {
            StoreFault::Splice { other, .. } => Some(items[*other].bytes.as_slice()),
            _ => None,
        };
        sum.cases += 1;
        sum.seam_ops += 1;
        *sum.fault_kinds
            .entry(if other.is_some() { "splice" } else { "random_bytes" }.into())
            .or_default() += 1;
        let mk = || {
            serde_json::to_value(Case {
                corpus_idx: item.idx,
                spec: item.spec.clone(),
                fault: fault.clone(),
                corpus_seed: ctx.seed,
            })
            .unwrap()
        };
        let base = Baseline {
            audio: vec![],
            frame_start_bit: usize::MAX,
        };
        if let Some(v) = exec_case(item, &base, &fault, other, &mk, Some(&mut sum)) {
            *sum.classes.entry(v.class.clone()).or_default() += 1;
            viols.push(v);
        }
    }
    // ---- bytes this library never wrote: foreign prefixes in front of a valid stream, foreign streams
    let mut raw_cases: Vec<(Vec<u8>, String, &str)> = vec![];
    if let Some(item) = items.iter().find(|i| i.bytes.len() > 60 && i.bytes.len() < 1500) {
        for (k, (bytes, what)) in crate::foreign::prefixed(&item.bytes).into_iter().enumerate() {
            if k as u64 % ctx.nchild == ctx.child {
                raw_cases.push((bytes, what, "foreign_prefix"));
            }
        }
    }
    let nforeign = ctx.count * if thorough { 5000 } else { 600 };
    for j in 0..nforeign {
        if j % ctx.nchild != ctx.child {
            continue;
        }
        let (bytes, what) = crate::foreign::stream(ctx.seed, j);
        // (a per-case count: every child counts its own share, the merged sum does not depend on the split)
        if let Some(k) = what.rsplit("unusual: ").next() {
            *sum.probes.entry(format!("foreign_{k}")).or_default() += 1;
        }
        raw_cases.push((bytes, what, "foreign_stream"));
        if raw_cases.len() >= 256 {
            run_raw(&mut raw_cases, &mut sum, &mut viols);
        }
    }
    run_raw(&mut raw_cases, &mut sum, &mut viols);
    (sum, viols)
}

fn hex(b: &[u8]) -> String {
    b.iter().map(|x| format!("{x:02x}")).collect()
}

fn unhex(s: &str) -> Result<Vec<u8>, String> {
    if s.len() % 2 != 0 {
        return Err("odd hex length".into());
    }
    (0..s.len() / 2).map(|i| u8::from_str_radix(&s[2 * i..2 * i + 2], 16).map_err(|e| e.to_string())).collect()
}

/// Raw stored bytes (never-panics half only): the parser returns an error or a result.
fn exec_raw(bytes: &[u8], what: &str, sum: Option<(&mut Summary, &str)>) -> Option<Violation> {
    crate::progress::begin(&|| json!({"raw_hex": hex(bytes), "origin": what}));
    let r = parse(bytes);
    if let Some((sum, kind)) = sum {
        sum.cases += 1;
        sum.seam_ops += 1;
        *sum.fault_kinds.entry(kind.to_owned()).or_default() += 1;
        let o = match &r {
            Err(_) => "panicked",
            Ok(Parsed::Rejected) => "rejected",
            Ok(Parsed::Accepted(Ok(_), _)) => "accepted",
            Ok(Parsed::Accepted(Err(_), _)) => "accepted_decode_panicked",
        };
        *sum.outcomes.entry(format!("{kind}_{o}")).or_default() += 1;
        if o != "rejected" || bytes.len() > 46 {
            sum.distinct_nontrivial += 1;
        }
    }
    match r {
        Err(c) => Some(Violation {
            class: "panic".into(),
            site: c.site.clone(),
            message: c.message.clone(),
            detail: format!("parser::stream panicked on {} bytes: {what}", bytes.len()),
            case: json!({"raw_hex": hex(bytes), "origin": what}),
        }),
        Ok(_) => None,
    }
}

fn run_raw(cases: &mut Vec<(Vec<u8>, String, &str)>, sum: &mut Summary, viols: &mut Vec<Violation>) {
    for (bytes, what, kind) in cases.drain(..) {
        if let Some(v) = exec_raw(&bytes, &what, Some((sum, kind))) {
            *sum.classes.entry(v.class.clone()).or_default() += 1;
            viols.push(v);
        }
    }
}

pub fn exec(case: &serde_json::Value) -> Result<Option<Violation>, String> {
    if let Some(h) = case.get("raw_hex").and_then(serde_json::Value::as_str) {
        let bytes = unhex(h)?;
        return Ok(exec_raw(&bytes, case.get("origin").and_then(serde_json::Value::as_str).unwrap_or(""), None));
    }
    let c: Case = serde_json::from_value(case.clone()).map_err(|e| format!("bad C16 case: {e}"))?;
    let item = corpus::build_spec(c.corpus_idx, c.spec.clone());
    let other_item = match &c.fault {
        StoreFault::Splice { other, .. } => Some(corpus::build(c.corpus_seed, *other)),
        _ => None,
    };
    let base = match (&c.fault, baseline(&item)) {
        (StoreFault::Random { .. } | StoreFault::Splice { .. }, _) | (_, None) => Baseline {
            audio: vec![],
            frame_start_bit: usize::MAX,
        },
        (_, Some(b)) => b,
    };
    let cc = case.clone();
    Ok(exec_case(&item, &base, &c.fault, other_item.as_ref().map(|i| i.bytes.as_slice()), &move || cc.clone(), None))
}

/// Shrinks a violating case: the earliest single-bit flip / shortest truncation in the same stream with
/// the same class and site, else the case itself.
pub fn minimise(case: &serde_json::Value, class: &str, site: &str) -> serde_json::Value {
    if let Some(h) = case.get("raw_hex").and_then(serde_json::Value::as_str) {
        // the shortest prefix of the stored bytes that still fails the same way
        let Ok(bytes) = unhex(h) else {
            return case.clone();
        };
        let what = case.get("origin").and_then(serde_json::Value::as_str).unwrap_or("").to_owned();
        let same = |n: usize| exec_raw(&bytes[..n], &what, None).map_or(false, |v| v.class == class && v.site == site);
        let mut best = bytes.len();
        for n in 0..bytes.len() {
            if same(n) {
                best = n;
                break;
            }
        }
        if best == bytes.len() {
            return case.clone();
        }
        return json!({"raw_hex": hex(&bytes[..best]), "origin": format!("{what} (cut to its first {best} bytes)")});
    }
    let Ok(c) = serde_json::from_value::<Case>(case.clone()) else {
        return case.clone();
    };
    if matches!(c.fault, StoreFault::Random { .. } | StoreFault::Splice { .. }) {
        return case.clone();
    }
    let item = corpus::build_spec(c.corpus_idx, c.spec.clone());
    let Some(base) = baseline(&item) else {
        return case.clone();
    };
    let mut cands: Vec<StoreFault> = (0..item.bytes.len() * 8).map(|bit| StoreFault::Flip { bit }).collect();
    cands.extend((0..item.bytes.len()).map(|len| StoreFault::Truncate { len }));
    for f in cands {
        let cc = Case {
            fault: f.clone(),
            ..c.clone()
        };
        let v = serde_json::to_value(&cc).unwrap();
        let vv = v.clone();
        if let Some(x) = exec_case(&item, &base, &f, None, &move || vv.clone(), None) {
            if x.class == class && x.site == site {
                return v;
            }
        }
    }
    case.clone()
}
