//! Stored bytes that this library's encoder never wrote (C16, "arbitrary or corrupted bytes"):
//!
//! * **foreign streams** - FLAC streams assembled bit by bit from the format's grammar by a writer of our own
//!   (not the library's serialiser), with correct CRC-8 / CRC-16, every subframe type, wasted bits, escaped
//!   partitions, both Rice methods, multi-byte frame numbers, explicit block sizes 1..65536; most frames are
//!   legal, a seeded minority carries exactly one thing another encoder (or a crafted file) might get wrong:
//!   predictor order above the block size, a partition order that does not divide the block or leaves fewer
//!   samples than the order, reserved codes, precision 15+1, negative shift, wasted bits >= width, huge quotients;
//! * **foreign prefixes** - a valid stream behind what taggers and containers put in front of it (ID3v2 with
//!   every flag combination and size, Ogg, RIFF, MPEG sync, a doubled marker), truncated at every length around
//!   the end of the prefix.
//!
//! The bytes are what is stored in the replay file; the generator is not needed to replay.
use crate::rng::Rng;
use crate::sinks::BitModel;

fn crc8(bytes: &[u8]) -> u8 {
    let mut c = 0u8;
    for b in bytes {
        c ^= *b;
        for _ in 0..8 {
            c = if c & 0x80 != 0 { (c << 1) ^ 0x07 } else { c << 1 };
        }
    }
    c
}

fn crc16(bytes: &[u8]) -> u16 {
    let mut c = 0u16;
    for b in bytes {
        c ^= u16::from(*b) << 8;
        for _ in 0..8 {
            c = if c & 0x8000 != 0 { (c << 1) ^ 0x8005 } else { c << 1 };
        }
    }
    c
}

pub const ILLEGAL_KINDS: &[&str] = &[
    "none",
    "order_above_block",
    "partition_order_too_fine",
    "partition_order_not_dividing",
    "precision_code_15",
    "negative_shift",
    "reserved_residual_method",
    "reserved_subframe_type",
    "wasted_bits_fill_width",
    "huge_quotient",
    "escape_31_bits",
    "reserved_block_size_code",
    "reserved_sample_size_code",
    "reserved_channel_code",
    "frame_number_36_bits",
    "invalid_rate_code",
    "block_size_65536",
    "warmup_shorter_than_order",
    "streaminfo_disagrees",
    "missing_footer",
];

struct Fmt {
    channels: usize,
    bps: usize,
}

fn utf8ish(m: &mut BitModel, v: u64) {
    // the format's "UTF-8 like" coding of up to 36 bits
    if v < 0x80 {
        m.push_lsbs(v, 8);
        return;
    }
    let nbytes = match v {
        x if x < 1 << 11 => 2,
        x if x < 1 << 16 => 3,
        x if x < 1 << 21 => 4,
        x if x < 1 << 26 => 5,
        x if x < 1 << 31 => 6,
        _ => 7,
    };
    let lead_bits = if nbytes == 7 { 0 } else { 7 - nbytes };
    let lead_prefix: u64 = (0xFFu64 << (8 - nbytes)) & 0xFF;
    let top = if lead_bits == 0 { 0 } else { (v >> (6 * (nbytes - 1))) & ((1 << lead_bits) - 1) };
    m.push_lsbs(lead_prefix | top, 8);
    for i in (0..nbytes - 1).rev() {
        m.push_lsbs(0x80 | ((v >> (6 * i)) & 0x3F), 8);
    }
}

fn residual(m: &mut BitModel, r: &mut Rng, bs: usize, order: usize, illegal: &str) {
    let method = if illegal == "reserved_residual_method" { 2 + r.below(2) } else { r.below(2) };
    m.push_lsbs(method as u64, 2);
    let pbits = if method == 1 { 5 } else { 4 };
    // a legal partition order: divides the block and leaves at least `order` samples in the first partition
    let mut legal = vec![0usize];
    for p in 1..=8usize {
        if bs % (1 << p) == 0 && (bs >> p) >= order.max(1) {
            legal.push(p);
        }
    }
    let porder = match illegal {
        "partition_order_too_fine" => {
            // 2^p partitions of fewer samples than the predictor order (or of zero samples)
            let mut p = 1;
            while p < 15 && (bs >> p) >= order.max(1) {
                p += 1;
            }
            p.min(15)
        }
        "partition_order_not_dividing" => {
            let mut p = 1 + r.below(4);
            while p < 15 && bs % (1 << p) == 0 {
                p += 1;
            }
            p.min(15)
        }
        _ => *r.pick(&legal),
    };
    m.push_lsbs(porder as u64, 4);
    let nparts = 1usize << porder.min(10);
    for p in 0..nparts {
        let n = if p == 0 { (bs >> porder).saturating_sub(order) } else { bs >> porder };
        if r.chance(0.02) || illegal == "escape_31_bits" {
            m.push_lsbs((1 << pbits) - 1, pbits);
            let nb = if illegal == "escape_31_bits" { 31 } else { r.below(9) };
            m.push_lsbs(nb as u64, 5);
            for _ in 0..n {
                m.push_lsbs(r.next_u64(), nb);
            }
        } else {
            let param = r.below(if method == 1 { 12 } else { 8 });
            m.push_lsbs(param as u64, pbits);
            for i in 0..n {
                let q = if illegal == "huge_quotient" && i == 0 {
                    3000 + r.below(70_000)
                } else if r.chance(0.02) {
                    20 + r.below(60)
                } else {
                    r.below(4)
                };
                m.push_zeros(q);
                m.push_lsbs(1, 1);
                m.push_lsbs(r.next_u64(), param);
            }
        }
        if m.len() > 4_000_000 {
            return;
        }
    }
}

fn subframe(m: &mut BitModel, r: &mut Rng, bs: usize, bps_sub: usize, illegal: &str) {
    m.push_lsbs(0, 1);
    let kind = r.below(20);
    let (ty, order): (u64, usize) = if illegal == "reserved_subframe_type" {
        (*r.pick(&[0b000010u64, 0b000100, 0b001101, 0b001111, 0b010000, 0b011111]), 0)
    } else if illegal == "order_above_block" {
        if r.chance(0.5) {
            let o = (bs + 1).min(4).max(1);
            (0b001000 | o as u64, o)
        } else {
            let o = (bs + 1 + r.below(4)).min(32);
            (0b100000 | (o as u64 - 1), o)
        }
    } else {
        match kind {
            0..=2 => (0, 0),
            3..=6 => (1, 0),
            7..=13 => {
                let o = r.below(5).min(bs);
                (0b001000 | o as u64, o)
            }
            _ => {
                let o = (1 + if r.chance(0.8) { r.below(8) } else { r.below(32) }).min(bs.max(1)).min(32);
                (0b100000 | (o as u64 - 1), o)
            }
        }
    };
    m.push_lsbs(ty, 6);
    let wasted = if illegal == "wasted_bits_fill_width" {
        bps_sub + r.below(3)
    } else if r.chance(0.03) {
        1 + r.below(3)
    } else {
        0
    };
    if wasted > 0 {
        m.push_lsbs(1, 1);
        m.push_zeros(wasted - 1);
        m.push_lsbs(1, 1);
    } else {
        m.push_lsbs(0, 1);
    }
    let eff = bps_sub.saturating_sub(wasted);
    let warm = if illegal == "warmup_shorter_than_order" { order.min(bs) / 2 } else { order };
    match ty {
        0 => m.push_lsbs(r.next_u64(), eff),
        1 => {
            for _ in 0..bs {
                m.push_lsbs(r.next_u64(), eff);
            }
        }
        t if t & 0b111000 == 0b001000 && (t & 7) <= 4 => {
            for _ in 0..warm {
                m.push_lsbs(r.next_u64(), eff);
            }
            residual(m, r, bs, order, illegal);
        }
        t if t & 0b100000 != 0 => {
            for _ in 0..warm {
                m.push_lsbs(r.next_u64(), eff);
            }
            let prec = if illegal == "precision_code_15" { 16 } else { 1 + r.below(15) };
            m.push_lsbs(prec as u64 - 1, 4);
            let shift = if illegal == "negative_shift" { 16 + r.below(16) } else { r.below(15) };
            m.push_lsbs(shift as u64, 5);
            for _ in 0..order {
                m.push_lsbs(r.next_u64(), prec.min(15));
            }
            residual(m, r, bs, order, illegal);
        }
        _ => {
            // reserved type: whatever follows
            for _ in 0..r.below(16) {
                m.push_lsbs(r.next_u64(), 8);
            }
        }
    }
}

fn frame(r: &mut Rng, f: &Fmt, number: u64, illegal: &str) -> Vec<u8> {
    let mut m = BitModel::default();
    m.push_lsbs(0x3FFE, 14);
    m.push_lsbs(0, 1);
    m.push_lsbs(0, 1);
    let bs: usize = if illegal == "block_size_65536" {
        65536
    } else {
        *r.pick(&[1usize, 2, 3, 4, 5, 6, 7, 8, 9, 15, 16, 17, 31, 32, 33, 64, 192, 255, 256, 257, 576])
    };
    let (code, ext): (u64, Option<(u64, usize)>) = if illegal == "reserved_block_size_code" {
        (0, None)
    } else if bs == 192 && r.chance(0.5) {
        (1, None)
    } else if bs == 576 && r.chance(0.5) {
        (2, None)
    } else if bs == 256 && r.chance(0.5) {
        (8, None)
    } else if bs <= 256 && r.chance(0.85) {
        (6, Some((bs as u64 - 1, 8)))
    } else {
        (7, Some((bs as u64 - 1, 16)))
    };
    m.push_lsbs(code, 4);
    let rate_code: u64 = if illegal == "invalid_rate_code" { 15 } else if r.chance(0.5) { 0 } else { 9 };
    m.push_lsbs(rate_code, 4);
    let (chan_code, side): (u64, Option<usize>) = if illegal == "reserved_channel_code" {
        (11 + r.below(5) as u64, None)
    } else if f.channels == 2 && r.chance(0.5) {
        match r.below(3) {
            0 => (8, Some(1)),
            1 => (9, Some(0)),
            _ => (10, Some(1)),
        }
    } else {
        (f.channels as u64 - 1, None)
    };
    m.push_lsbs(chan_code, 4);
    let ss_code: u64 = if illegal == "reserved_sample_size_code" {
        *r.pick(&[3u64, 7])
    } else if r.chance(0.5) {
        0
    } else {
        match f.bps {
            8 => 1,
            12 => 2,
            16 => 4,
            20 => 5,
            _ => 6,
        }
    };
    m.push_lsbs(ss_code, 3);
    m.push_lsbs(0, 1);
    let number = if illegal == "frame_number_36_bits" {
        (1u64 << 31) + (r.next_u64() & 0xF_FFFF_FFFF).min((1u64 << 36) - 1 - (1u64 << 31))
    } else if r.chance(0.1) {
        *r.pick(&[0x7Fu64, 0x80, 0x7FF, 0x800, 0xFFFF, 0x1_0000, 0x1F_FFFF, 0x20_0000, 0x3FF_FFFF, 0x400_0000, 0x7FFF_FFFF])
    } else {
        number
    };
    utf8ish(&mut m, number);
    if let Some((v, n)) = ext {
        m.push_lsbs(v, n);
    }
    let hdr = m.to_bytes();
    m.push_lsbs(u64::from(crc8(&hdr)), 8);
    let nch = if chan_code <= 7 { chan_code as usize + 1 } else { 2 };
    for ch in 0..nch {
        let bps_sub = f.bps + usize::from(side == Some(ch));
        subframe(&mut m, r, bs.min(4096), bps_sub, illegal);
        if m.len() > 4_000_000 {
            break;
        }
    }
    m.align();
    let mut bytes = m.to_bytes();
    if illegal != "missing_footer" {
        let c = crc16(&bytes);
        bytes.extend_from_slice(&c.to_be_bytes());
    }
    bytes
}

/// One foreign stream from `(seed, index)`; returns (bytes, what is unusual about it).
pub fn stream(seed: u64, index: u64) -> (Vec<u8>, String) {
    let mut r = Rng::new(crate::rng::mix(crate::rng::mix(seed, 0xF0_4E16), index));
    let f = Fmt {
        channels: *r.pick(&[1usize, 1, 2, 2, 3, 8]),
        bps: *r.pick(&[8usize, 12, 16, 16, 20, 24]),
    };
    let illegal = if r.chance(0.45) { *r.pick(&ILLEGAL_KINDS[1..]) } else { "none" };
    let mut m = BitModel::default();
    for b in b"fLaC" {
        m.push_lsbs(u64::from(*b), 8);
    }
    m.push_lsbs(0x80, 8);
    m.push_lsbs(34, 24);
    let disagree = illegal == "streaminfo_disagrees";
    m.push_lsbs(if disagree { 4096 } else { 1 }, 16);
    m.push_lsbs(if disagree { 16 } else { 32767 }, 16);
    m.push_lsbs(0, 24);
    m.push_lsbs(if disagree { 7 } else { 0 }, 24);
    m.push_lsbs(44100, 20);
    m.push_lsbs(if disagree { (f.channels % 8) as u64 } else { f.channels as u64 - 1 }, 3);
    m.push_lsbs(if disagree { 3 } else { f.bps as u64 - 1 }, 5);
    m.push_lsbs(if r.chance(0.5) { 0 } else { r.next_u64() & 0xF_FFFF }, 36);
    for _ in 0..16 {
        m.push_lsbs(if r.chance(0.5) { 0 } else { r.next_u64() }, 8);
    }
    let mut bytes = m.to_bytes();
    let nframes = 1 + r.below(3);
    let bad_frame = r.below(nframes);
    for n in 0..nframes {
        let ill = if n == bad_frame { illegal } else { "none" };
        bytes.extend(frame(&mut r, &f, n as u64, ill));
        if bytes.len() > 600_000 {
            break;
        }
    }
    (bytes, format!("foreign stream #{index}: {} ch, {} bit, {nframes} frame(s), unusual: {illegal}", f.channels, f.bps))
}

/// Foreign prefixes in front of `valid` (a complete emitted stream), with truncations around the prefix end.
pub fn prefixed(valid: &[u8]) -> Vec<(Vec<u8>, String)> {
    let mut out = vec![];
    let push = |pre: Vec<u8>, what: String, out: &mut Vec<(Vec<u8>, String)>| {
        let mut full = pre.clone();
        full.extend_from_slice(valid);
        let lo = pre.len().saturating_sub(12);
        let hi = (pre.len() + 48).min(full.len());
        for len in lo..=hi {
            out.push((full[..len].to_vec(), format!("{what}, truncated to {len} of {} bytes", full.len())));
        }
        out.push((full, what));
    };
    // ID3v2: "ID3" major minor flags size(4 x 7 bit) body [footer]
    for flags in [0x00u8, 0x10, 0x20, 0x40, 0x80, 0x50, 0xF0, 0x0F, 0xFF] {
        for size in [0usize, 1, 9, 10, 11, 127, 128, 300] {
            for ver in [3u8, 4] {
                let mut p = vec![b'I', b'D', b'3', ver, 0, flags];
                p.extend_from_slice(&[((size >> 21) & 0x7F) as u8, ((size >> 14) & 0x7F) as u8, ((size >> 7) & 0x7F) as u8, (size & 0x7F) as u8]);
                p.extend((0..size).map(|i| (i * 37 + 11) as u8));
                push(p.clone(), format!("ID3v2.{ver} tag (flags {flags:#04x}, size {size}) in front of a valid stream"), &mut out);
                if flags & 0x10 != 0 {
                    let mut q = p.clone();
                    q.extend_from_slice(&[b'3', b'D', b'I', ver, 0, flags]);
                    q.extend_from_slice(&p[6..10]);
                    push(q, format!("ID3v2.{ver} tag with footer (flags {flags:#04x}, size {size}) in front of a valid stream"), &mut out);
                }
            }
        }
    }
    // sizes that are not sync-safe, and a size far beyond the input
    for size_bytes in [[0x80u8, 0, 0, 0], [0xFF, 0xFF, 0xFF, 0xFF], [0x7F, 0x7F, 0x7F, 0x7F], [0, 0, 0x80, 0]] {
        let mut p = vec![b'I', b'D', b'3', 4, 0, 0x10];
        p.extend_from_slice(&size_bytes);
        push(p, format!("ID3v2 tag with size bytes {size_bytes:02x?} in front of a valid stream"), &mut out);
    }
    let mut ogg = b"OggS\x00\x02".to_vec();
    ogg.extend_from_slice(&[0; 20]);
    ogg.extend_from_slice(&[1, 51, 0x7F]);
    ogg.extend_from_slice(b"FLAC\x01\x00\x00\x01");
    push(ogg, "an Ogg page header in front of a valid stream".into(), &mut out);
    let mut riff = b"RIFF".to_vec();
    riff.extend_from_slice(&(valid.len() as u32 + 4).to_le_bytes());
    riff.extend_from_slice(b"WAVE");
    push(riff, "a RIFF/WAVE header in front of a valid stream".into(), &mut out);
    push(vec![0xFF, 0xFB, 0x90, 0x00], "an MPEG audio sync word in front of a valid stream".into(), &mut out);
    push(b"fLaC".to_vec(), "a doubled fLaC marker".into(), &mut out);
    push(vec![0; 16], "sixteen zero bytes in front of a valid stream".into(), &mut out);
    push(b"ID3".to_vec(), "the bare letters ID3 in front of a valid stream".into(), &mut out);
    out
}
