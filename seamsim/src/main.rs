//! seamsim — simulated peers on flacenc's seams (Source / Fill / BitSink / stored bytes / calling thread),
//! on the shipped (guard-off) build.
//!
//! `seamsim run  --prop Cxx --tier T --seed S --child c --nchild n --count N --out F --replay-out P`
//! `seamsim exec --file replay.json [--minimise] [--replay-out P]`
//! Exit codes: 0 = nothing found, 3 = violation candidate(s) written, 2 = harness error.

#[path = "../../common/logger.rs"]
mod logger;
#[path = "../../common/rng.rs"]
mod rng;
#[path = "../../common/simsource.rs"]
mod simsource;
#[path = "../../common/workload.rs"]
mod workload;

mod bystander;
mod c10;
mod c11;
mod c12;
mod c14;
mod c16;
mod c17;
mod corpus;
mod foreign;
mod nomshim;
mod pan;
mod progress;
mod sinks;

use serde::{Deserialize, Serialize};
use serde_json::json;
use std::collections::BTreeMap;

#[derive(Clone, Debug)]
pub struct Violation {
    pub class: String,
    pub site: String,
    pub message: String,
    pub detail: String,
    pub case: serde_json::Value,
}

#[derive(Clone, Debug, Default, Serialize)]
pub struct Summary {
    pub rule: String,
    pub cases: u64,
    pub seam_ops: u64,
    pub distinct_nontrivial: u64,
    pub exhaustive: Option<bool>,
    pub fault_kinds: BTreeMap<String, u64>,
    pub probes: BTreeMap<String, u64>,
    pub classes: BTreeMap<String, u64>,
    pub outcomes: BTreeMap<String, u64>,
    pub ops_hist: BTreeMap<String, u64>,
    pub samples: Vec<serde_json::Value>,
    /// order-independent digest of (case, outcome) pairs: wrapping sum of per-case hashes, so that the
    /// merged value does not depend on how cases were split over child processes (determinism self-check)
    pub digest: u64,
}

impl Summary {
    pub fn note(&mut self, case_key: u64, outcome: u64) {
        self.digest = self.digest.wrapping_add(crate::rng::mix(case_key, outcome) | 1);
    }
    pub fn new(rule: &str) -> Self {
        Self {
            rule: rule.to_owned(),
            ..Self::default()
        }
    }
}

pub struct RunCtx {
    pub prop: String,
    pub tier: String,
    pub seed: u64,
    pub child: u64,
    pub nchild: u64,
    pub count: u64,
}

#[derive(Serialize, Deserialize, Clone, Debug)]
struct Observed {
    class: String,
    site: String,
    message: String,
    detail: String,
}

#[derive(Serialize, Deserialize, Clone, Debug)]
struct ReplayFile {
    property: String,
    engine: String,
    verif_seed: u64,
    run_index: u64,
    tier: String,
    profile: String,
    case: serde_json::Value,
    observed: Option<Observed>,
    #[serde(default)]
    minimised: bool,
    #[serde(default)]
    notes: Vec<String>,
    /// a `log` logger that formats every record was installed in the process that found this
    #[serde(default)]
    logger: bool,
    /// bystander threads (other threads of the process parked in the middle of a write / an encode, see
    /// `bystander.rs`) were present in the process that found this
    #[serde(default)]
    bystanders: bool,
}

fn harness_error(msg: &str) -> ! {
    eprintln!("HARNESS-ERROR: {msg}");
    println!("RESULT {}", json!({"harness_error": msg}));
    std::process::exit(2);
}

fn arg<'a>(args: &'a [String], name: &str) -> Option<&'a str> {
    args.iter().position(|a| a == name).and_then(|i| args.get(i + 1)).map(String::as_str)
}

fn profile() -> &'static str {
    if cfg!(debug_assertions) {
        "checked"
    } else {
        "release"
    }
}

/// The property a sub-run belongs to (sub-runs are named like the property).
fn base_prop(p: &str) -> String {
    p.chars().take(3).collect()
}

fn run_prop(ctx: &RunCtx) -> (Summary, Vec<Violation>) {
    match ctx.prop.as_str() {
        "C10" => c10::run(ctx),
        "C11" => c11::run(ctx),
        "C12" => c12::run(ctx),
        "C14" => c14::run(ctx),
        "C16" => c16::run(ctx),
        "C17" => c17::run(ctx),
        other => harness_error(&format!("unknown property {other}")),
    }
}

fn exec_prop(prop: &str, case: &serde_json::Value) -> Result<Option<Violation>, String> {
    match prop {
        "C10" => c10::exec(case),
        "C11" => c11::exec(case),
        "C12" => c12::exec(case),
        "C14" => c14::exec(case),
        "C16" => c16::exec(case),
        "C17" => c17::exec(case),
        other => Err(format!("unknown property {other}")),
    }
}

fn minimise_prop(prop: &str, case: &serde_json::Value, class: &str, site: &str) -> serde_json::Value {
    match prop {
        "C10" => c10::minimise(case, class, site),
        "C11" => c11::minimise(case, class, site),
        "C12" => c12::minimise(case, class, site),
        "C14" => c14::minimise(case, class, site),
        "C16" => c16::minimise(case, class, site),
        "C17" => c17::minimise(case, class, site),
        _ => case.clone(),
    }
}

fn result_json(v: &Violation) -> serde_json::Value {
    json!({"violation": true, "class": v.class, "site": v.site, "message": pan::norm_msg(&v.message), "detail": v.detail})
}

fn cmd_run(args: &[String]) {
    let ctx = RunCtx {
        prop: arg(args, "--prop").unwrap_or("C12").to_owned(),
        tier: arg(args, "--tier").unwrap_or("quick").to_owned(),
        seed: arg(args, "--seed").unwrap_or("1").parse().unwrap(),
        child: arg(args, "--child").unwrap_or("0").parse().unwrap(),
        nchild: arg(args, "--nchild").unwrap_or("1").parse().unwrap(),
        count: arg(args, "--count").unwrap_or("10").parse().unwrap(),
    };
    let out = arg(args, "--out").map(str::to_owned);
    let replay_out = arg(args, "--replay-out").unwrap_or("/verif/replays/seam-{i}-{s}.json").to_owned();
    let with_logger = ctx.child % 2 == 1;
    if with_logger {
        logger::install();
    }
    let with_bystanders = (ctx.child / 2) % 2 == 1;
    if with_bystanders {
        let parked = bystander::park_all();
        if parked.len() < 4 {
            eprintln!("NOTE: only {} of 4 bystander threads parked: {parked:?}", parked.len());
        }
    }
    // watchdog: a case that never returns ends the child (exit 4, "STALLED n"); see progress.rs
    let hang_s: u64 = arg(args, "--hang-s").and_then(|s| s.parse().ok()).unwrap_or(120);
    if let (Some(from), Some(path)) = (arg(args, "--trace-from"), arg(args, "--trace-out")) {
        progress::trace(from.parse().unwrap_or(0), path);
    }
    progress::watchdog(hang_s);
    let t0 = std::time::Instant::now();
    let (sum, viols) = run_prop(&ctx);
    let wall = t0.elapsed().as_secs_f64();
    let mut v = serde_json::to_value(&sum).unwrap();
    {
        let o = v.as_object_mut().unwrap();
        o.insert("property".into(), json!(ctx.prop));
        o.insert("tier".into(), json!(ctx.tier));
        o.insert("seed".into(), json!(ctx.seed));
        o.insert("child".into(), json!(ctx.child));
        o.insert("nchild".into(), json!(ctx.nchild));
        o.insert("wall_s".into(), json!(wall));
        o.insert("profile".into(), json!(profile()));
        o.insert("violations_total".into(), json!(viols.len()));
        if sum.exhaustive.is_none() {
            o.remove("exhaustive");
        }
    }
    if let Some(p) = &out {
        std::fs::write(p, serde_json::to_string(&v).unwrap()).unwrap_or_else(|e| harness_error(&format!("write summary: {e}")));
    } else {
        println!("{}", serde_json::to_string_pretty(&v).unwrap());
    }
    // one candidate per signature (class, site)
    let mut seen: BTreeMap<(String, String), usize> = BTreeMap::new();
    let mut n = 0usize;
    for viol in &viols {
        let key = (viol.class.clone(), viol.site.clone());
        let e = seen.entry(key).or_insert(0);
        *e += 1;
        if *e > 1 {
            continue;
        }
        let rf = ReplayFile {
            property: base_prop(&ctx.prop),
            engine: if cfg!(feature = "experimental") {
                "seamsim-exp".into()
            } else if profile() == "checked" {
                "seamsim-checked".into()
            } else {
                "seamsim".into()
            },
            verif_seed: ctx.seed,
            run_index: n as u64,
            tier: ctx.tier.clone(),
            profile: profile().into(),
            case: viol.case.clone(),
            observed: Some(Observed {
                class: viol.class.clone(),
                site: viol.site.clone(),
                message: viol.message.clone(),
                detail: viol.detail.clone(),
            }),
            minimised: false,
            notes: vec![],
            logger: with_logger,
            bystanders: with_bystanders,
        };
        let path = replay_out.replace("{i}", &format!("c{}", ctx.child)).replace("{s}", &n.to_string());
        if let Some(dir) = std::path::Path::new(&path).parent() {
            let _ = std::fs::create_dir_all(dir);
        }
        std::fs::write(&path, serde_json::to_string_pretty(&rf).unwrap()).unwrap_or_else(|e| harness_error(&format!("write replay: {e}")));
        println!("CANDIDATE {path}");
        let mut r = result_json(viol);
        r.as_object_mut().unwrap().insert("count".into(), json!(viols.iter().filter(|x| x.class == viol.class && x.site == viol.site).count()));
        println!("RESULT {r}");
        n += 1;
    }
    if n > 0 {
        std::process::exit(3);
    }
}

static FIRST_EXEC_RETURNED: std::sync::atomic::AtomicBool = std::sync::atomic::AtomicBool::new(false);

fn cmd_exec(args: &[String]) {
    let file = arg(args, "--file").unwrap_or_else(|| harness_error("--file required"));
    let text = std::fs::read_to_string(file).unwrap_or_else(|e| harness_error(&format!("cannot read {file}: {e}")));
    let mut rf: ReplayFile = serde_json::from_str(&text).unwrap_or_else(|e| harness_error(&format!("bad replay file: {e}")));
    let replay_out = arg(args, "--replay-out").map(str::to_owned);
    let want_min = args.iter().any(|a| a == "--minimise");
    if rf.logger {
        logger::install();
    }
    if rf.bystanders {
        let _ = bystander::park_all();
    }
    // one case in a fresh process: if it has not returned after the time limit it is reported as a hang
    // (the same limit the watchdog of a run uses; real code on real threads, nothing simulated to blame)
    {
        let hang_s: u64 = arg(args, "--hang-s").and_then(|s| s.parse().ok()).unwrap_or(120);
        let mut rf2 = rf.clone();
        let out = replay_out.clone();
        let _ = std::thread::Builder::new().name("exec-deadline".into()).spawn(move || {
            std::thread::sleep(std::time::Duration::from_secs(hang_s));
            if FIRST_EXEC_RETURNED.load(std::sync::atomic::Ordering::SeqCst) {
                return; // the case itself returned in time; what runs now is the shrinker
            }
            let detail = format!("the case did not return within {hang_s} s in a process of its own");
            rf2.observed = Some(Observed { class: "hang".into(), site: String::new(), message: String::new(), detail: detail.clone() });
            rf2.profile = profile().into();
            if let Some(p) = out {
                if std::fs::write(&p, serde_json::to_string_pretty(&rf2).unwrap()).is_ok() {
                    println!("CANDIDATE {p}");
                }
            }
            println!("RESULT {}", json!({"violation": true, "class": "hang", "site": "", "message": "", "detail": detail}));
            use std::io::Write;
            let _ = std::io::stdout().flush();
            std::process::exit(3);
        });
    }
    let res = exec_prop(&rf.property, &rf.case).unwrap_or_else(|e| harness_error(&e));
    FIRST_EXEC_RETURNED.store(true, std::sync::atomic::Ordering::SeqCst);
    let Some(mut viol) = res else {
        println!("RESULT {}", json!({"violation": false}));
        return;
    };
    if want_min {
        let small = minimise_prop(&rf.property, &rf.case, &viol.class, &viol.site);
        if small != rf.case {
            if let Ok(Some(v2)) = exec_prop(&rf.property, &small) {
                if v2.class == viol.class && v2.site == viol.site {
                    rf.case = small;
                    rf.minimised = true;
                    viol = v2;
                }
            }
        } else {
            rf.minimised = true;
        }
    }
    rf.observed = Some(Observed {
        class: viol.class.clone(),
        site: viol.site.clone(),
        message: viol.message.clone(),
        detail: viol.detail.clone(),
    });
    rf.profile = profile().into();
    if let Some(p) = replay_out {
        std::fs::write(&p, serde_json::to_string_pretty(&rf).unwrap()).unwrap_or_else(|e| harness_error(&format!("write replay: {e}")));
        println!("CANDIDATE {p}");
    }
    println!("RESULT {}", result_json(&viol));
    std::process::exit(3);
}

fn main() {
    let args: Vec<String> = std::env::args().collect();
    if args.len() < 2 {
        harness_error("usage: seamsim run|exec ...");
    }
    pan::install();
    match args[1].as_str() {
        "run" => cmd_run(&args),
        "exec" => cmd_exec(&args),
        "foreign-debug" => {
            let seed: u64 = args[2].parse().unwrap();
            let from: u64 = args[3].parse().unwrap();
            let to: u64 = args[4].parse().unwrap();
            for i in from..to {
                let (bytes, what) = foreign::stream(seed, i);
                println!("{what}: {}", nomshim::explain(&bytes));
            }
        }
        "c10-ref" | "c10-proc" => {
            if args.iter().any(|a| a == "--logger") {
                logger::install();
            }
            // never outlive the parent by much: a call that does not return ends this helper process
            let _ = std::thread::spawn(|| {
                std::thread::sleep(std::time::Duration::from_secs(300));
                std::process::exit(5);
            });
            if args[1] == "c10-ref" {
                c10::proc_ref_main();
            } else {
                c10::proc_history_main();
            }
        }
        other => harness_error(&format!("unknown command {other}")),
    }
}
