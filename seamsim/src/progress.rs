//! Progress counter, flight recorder and watchdog of a seamsim child process.
//!
//! The calls under test run real code on real threads; an endless loop in the library would keep the child
//! (and the whole check) running for ever. Every case announces itself through `begin` before it executes.
//! A watchdog thread ends the process (exit code 4, line `STALLED <n>`) when no case has begun for
//! `limit` seconds. The driver then runs the same child again with `--trace-from <n-1>`: from that case
//! on, `begin` writes the case to a file before executing it, so the case that never returns is on disk when
//! the watchdog fires again. The driver confirms it alone in a fresh process under the same time limit and
//! only then reports it (class `hang`). Normal runs pay one atomic increment per case.

use std::sync::atomic::{AtomicU64, Ordering};
use std::sync::OnceLock;

static BEGUN: AtomicU64 = AtomicU64::new(0);
static TRACE_FROM: AtomicU64 = AtomicU64::new(u64::MAX);
static TRACE_PATH: OnceLock<String> = OnceLock::new();

/// Announces the next case; `make` renders it in the form `seamsim exec` accepts (only called when tracing).
pub fn begin(make: &dyn Fn() -> serde_json::Value) {
    let n = BEGUN.fetch_add(1, Ordering::Relaxed);
    if n >= TRACE_FROM.load(Ordering::Relaxed) {
        if let Some(p) = TRACE_PATH.get() {
            let v = serde_json::json!({"n": n, "case": make()});
            let tmp = format!("{p}.tmp");
            if std::fs::write(&tmp, serde_json::to_string(&v).unwrap_or_default()).is_ok() {
                let _ = std::fs::rename(&tmp, p);
            }
        }
    }
}

pub fn trace(from: u64, path: &str) {
    let _ = TRACE_PATH.set(path.to_owned());
    TRACE_FROM.store(from, Ordering::Relaxed);
}

/// Starts the watchdog: exit code 4 after `limit_s` seconds without a new case.
pub fn watchdog(limit_s: u64) {
    let _ = std::thread::Builder::new().name("watchdog".into()).spawn(move || {
        let mut last = BEGUN.load(Ordering::Relaxed);
        let mut since = std::time::Instant::now();
        loop {
            std::thread::sleep(std::time::Duration::from_millis(500));
            let now = BEGUN.load(Ordering::Relaxed);
            if now != last {
                last = now;
                since = std::time::Instant::now();
            } else if since.elapsed().as_secs() >= limit_s {
                println!("STALLED {now}");
                use std::io::Write;
                let _ = std::io::stdout().flush();
                std::process::exit(4);
            }
        }
    });
}
