//! User-defined sinks as simulated peers on the `BitSink` seam.
//!
//! * `ReqSink`  implements only the four required methods (everything else goes
//!   through the trait's default methods, as for a minimal user sink);
//! * `FullSink` overrides every method.
//! Both count operations, can fail at a scripted operation index, and record the
//! accepted bits in an ideal bit string (`BitModel`).

use flacenc::bitsink::{BitSink, Bits, SignedBits};
use std::fmt;

/// Ideal MSB-first bit string.
#[derive(Clone, Debug, Default, PartialEq, Eq)]
pub struct BitModel {
    pub bits: Vec<bool>,
}

impl BitModel {
    pub fn push_msbs(&mut self, val: u64, width: usize, n: usize) {
        // the n most significant bits of a `width`-bit value
        for i in 0..n {
            self.bits.push((val >> (width - 1 - i)) & 1 == 1);
        }
    }
    pub fn push_lsbs(&mut self, val: u64, n: usize) {
        for i in 0..n {
            self.bits.push((val >> (n - 1 - i)) & 1 == 1);
        }
    }
    pub fn push_zeros(&mut self, n: usize) {
        self.bits.resize(self.bits.len() + n, false);
    }
    pub fn align(&mut self) -> usize {
        let pad = (8 - self.bits.len() % 8) % 8;
        self.push_zeros(pad);
        pad
    }
    pub fn len(&self) -> usize {
        self.bits.len()
    }
    /// MSB-first bytes, the unwritten tail of the last byte is zero.
    pub fn to_bytes(&self) -> Vec<u8> {
        let mut out = vec![0u8; (self.bits.len() + 7) / 8];
        for (i, b) in self.bits.iter().enumerate() {
            if *b {
                out[i / 8] |= 0x80 >> (i % 8);
            }
        }
        out
    }
    pub fn from_bytes(bytes: &[u8], nbits: usize) -> Self {
        let mut bits = Vec::with_capacity(nbits);
        for i in 0..nbits {
            bits.push(bytes[i / 8] & (0x80 >> (i % 8)) != 0);
        }
        Self { bits }
    }
    pub fn is_prefix_of(&self, other: &Self) -> bool {
        self.bits.len() <= other.bits.len() && other.bits[..self.bits.len()] == self.bits[..]
    }
}

#[derive(Debug, Clone, PartialEq, Eq)]
pub struct SimSinkError {
    /// index of the failing operation
    pub k: usize,
}

impl fmt::Display for SimSinkError {
    fn fmt(&self, f: &mut fmt::Formatter<'_>) -> fmt::Result {
        write!(f, "simulated sink failure at operation {}", self.k)
    }
}
impl std::error::Error for SimSinkError {}

#[derive(Clone, Debug, Default)]
pub struct Core {
    pub model: BitModel,
    /// operations seen so far (successful or not)
    pub ops: usize,
    pub fail_at: Option<usize>,
    /// true: every operation from `fail_at` on fails; false: only that one
    pub sticky: bool,
    /// number of errors returned
    pub errors: usize,
    /// operations attempted after the first error
    pub ops_after_error: usize,
    /// number of bits accepted when the first error was returned
    pub bits_before_error: Option<usize>,
    /// histogram of operations by method (0 align, 1 lsbs, 2 msbs, 3 write, 4 bytes_aligned, 5 twoc, 6 zeros)
    pub by_method: [u64; 7],
}

impl Core {
    pub fn failing(fail_at: Option<usize>, sticky: bool) -> Self {
        Self {
            fail_at,
            sticky,
            ..Self::default()
        }
    }
    fn gate(&mut self, method: usize) -> Result<(), SimSinkError> {
        let k = self.ops;
        self.ops += 1;
        self.by_method[method] += 1;
        if self.errors > 0 {
            self.ops_after_error += 1;
        }
        match self.fail_at {
            Some(f) if k == f || (self.sticky && k > f) => {
                self.errors += 1;
                if self.bits_before_error.is_none() {
                    self.bits_before_error = Some(self.model.len());
                }
                Err(SimSinkError { k })
            }
            _ => Ok(()),
        }
    }
}

fn to_u64<T: Bits>(v: T) -> u64 {
    v.into()
}

fn width<T>() -> usize {
    std::mem::size_of::<T>() * 8
}

/// Minimal user sink: required methods only.
#[derive(Clone, Debug, Default)]
pub struct ReqSink(pub Core);

impl BitSink for ReqSink {
    type Error = SimSinkError;

    fn align_to_byte(&mut self) -> Result<usize, Self::Error> {
        self.0.gate(0)?;
        Ok(self.0.model.align())
    }
    fn write_lsbs<T: Bits>(&mut self, val: T, n: usize) -> Result<(), Self::Error> {
        self.0.gate(1)?;
        self.0.model.push_lsbs(to_u64(val), n);
        Ok(())
    }
    fn write_msbs<T: Bits>(&mut self, val: T, n: usize) -> Result<(), Self::Error> {
        self.0.gate(2)?;
        self.0.model.push_msbs(to_u64(val), width::<T>(), n);
        Ok(())
    }
    fn write<T: Bits>(&mut self, val: T) -> Result<(), Self::Error> {
        self.0.gate(3)?;
        self.0.model.push_msbs(to_u64(val), width::<T>(), width::<T>());
        Ok(())
    }
}

/// User sink that overrides every method.
#[derive(Clone, Debug, Default)]
pub struct FullSink(pub Core);

impl BitSink for FullSink {
    type Error = SimSinkError;

    fn align_to_byte(&mut self) -> Result<usize, Self::Error> {
        self.0.gate(0)?;
        Ok(self.0.model.align())
    }
    fn write_lsbs<T: Bits>(&mut self, val: T, n: usize) -> Result<(), Self::Error> {
        self.0.gate(1)?;
        self.0.model.push_lsbs(to_u64(val), n);
        Ok(())
    }
    fn write_msbs<T: Bits>(&mut self, val: T, n: usize) -> Result<(), Self::Error> {
        self.0.gate(2)?;
        self.0.model.push_msbs(to_u64(val), width::<T>(), n);
        Ok(())
    }
    fn write<T: Bits>(&mut self, val: T) -> Result<(), Self::Error> {
        self.0.gate(3)?;
        self.0.model.push_msbs(to_u64(val), width::<T>(), width::<T>());
        Ok(())
    }
    fn write_bytes_aligned(&mut self, bytes: &[u8]) -> Result<usize, Self::Error> {
        self.0.gate(4)?;
        let pad = self.0.model.align();
        for b in bytes {
            self.0.model.push_msbs(u64::from(*b), 8, 8);
        }
        Ok(pad)
    }
    fn write_twoc<T: SignedBits>(&mut self, val: T, bits_per_sample: usize) -> Result<(), Self::Error> {
        self.0.gate(5)?;
        let v: i64 = val.into();
        self.0.model.push_lsbs(v as u64, bits_per_sample);
        Ok(())
    }
    fn write_zeros(&mut self, n: usize) -> Result<(), Self::Error> {
        self.0.gate(6)?;
        self.0.model.push_zeros(n);
        Ok(())
    }
}

/// A user error type without any payload (a unit struct) - as legitimate as one that carries data.
#[derive(Debug, Clone, Copy, PartialEq, Eq)]
pub struct UnitSinkError;

impl fmt::Display for UnitSinkError {
    fn fmt(&self, f: &mut fmt::Formatter<'_>) -> fmt::Result {
        write!(f, "simulated sink failure")
    }
}
impl std::error::Error for UnitSinkError {}

/// Minimal user sink (required methods only) whose error type is a zero-sized unit struct.
#[derive(Clone, Debug, Default)]
pub struct UnitErrSink(pub Core);

impl BitSink for UnitErrSink {
    type Error = UnitSinkError;

    fn align_to_byte(&mut self) -> Result<usize, Self::Error> {
        self.0.gate(0).map_err(|_| UnitSinkError)?;
        Ok(self.0.model.align())
    }
    fn write_lsbs<T: Bits>(&mut self, val: T, n: usize) -> Result<(), Self::Error> {
        self.0.gate(1).map_err(|_| UnitSinkError)?;
        self.0.model.push_lsbs(to_u64(val), n);
        Ok(())
    }
    fn write_msbs<T: Bits>(&mut self, val: T, n: usize) -> Result<(), Self::Error> {
        self.0.gate(2).map_err(|_| UnitSinkError)?;
        self.0.model.push_msbs(to_u64(val), width::<T>(), n);
        Ok(())
    }
    fn write<T: Bits>(&mut self, val: T) -> Result<(), Self::Error> {
        self.0.gate(3).map_err(|_| UnitSinkError)?;
        self.0.model.push_msbs(to_u64(val), width::<T>(), width::<T>());
        Ok(())
    }
}

/// What the sink of a real program reports: an `std::io::Error` (the kind varies with the operation index:
/// `Interrupted`, `WouldBlock`, `BrokenPipe` - the first two look transient, and the library must not act on that).
pub fn io_error_for(k: usize) -> std::io::Error {
    std::io::Error::from(match k % 3 {
        0 => std::io::ErrorKind::Interrupted,
        1 => std::io::ErrorKind::WouldBlock,
        _ => std::io::ErrorKind::BrokenPipe,
    })
}

/// Minimal user sink whose error type is `std::io::Error` itself.
#[derive(Clone, Debug, Default)]
pub struct IoErrSink(pub Core);

impl BitSink for IoErrSink {
    type Error = std::io::Error;

    fn align_to_byte(&mut self) -> Result<usize, Self::Error> {
        self.0.gate(0).map_err(|e| io_error_for(e.k))?;
        Ok(self.0.model.align())
    }
    fn write_lsbs<T: Bits>(&mut self, val: T, n: usize) -> Result<(), Self::Error> {
        self.0.gate(1).map_err(|e| io_error_for(e.k))?;
        self.0.model.push_lsbs(to_u64(val), n);
        Ok(())
    }
    fn write_msbs<T: Bits>(&mut self, val: T, n: usize) -> Result<(), Self::Error> {
        self.0.gate(2).map_err(|e| io_error_for(e.k))?;
        self.0.model.push_msbs(to_u64(val), width::<T>(), n);
        Ok(())
    }
    fn write<T: Bits>(&mut self, val: T) -> Result<(), Self::Error> {
        self.0.gate(3).map_err(|e| io_error_for(e.k))?;
        self.0.model.push_msbs(to_u64(val), width::<T>(), width::<T>());
        Ok(())
    }
}

/// A user error type that wraps an `std::io::Error` and exposes it through `source()`.
#[derive(Debug)]
pub struct WrappedIo {
    pub inner: std::io::Error,
}

impl fmt::Display for WrappedIo {
    fn fmt(&self, f: &mut fmt::Formatter<'_>) -> fmt::Result {
        write!(f, "sink failed: {}", self.inner)
    }
}
impl std::error::Error for WrappedIo {
    fn source(&self) -> Option<&(dyn std::error::Error + 'static)> {
        Some(&self.inner)
    }
}

/// Minimal user sink whose error wraps an `std::io::Error` of kind `Interrupted`.
#[derive(Clone, Debug, Default)]
pub struct WrappedIoSink(pub Core);

impl WrappedIoSink {
    fn err() -> WrappedIo {
        WrappedIo { inner: std::io::Error::from(std::io::ErrorKind::Interrupted) }
    }
}

impl BitSink for WrappedIoSink {
    type Error = WrappedIo;

    fn align_to_byte(&mut self) -> Result<usize, Self::Error> {
        self.0.gate(0).map_err(|_| Self::err())?;
        Ok(self.0.model.align())
    }
    fn write_lsbs<T: Bits>(&mut self, val: T, n: usize) -> Result<(), Self::Error> {
        self.0.gate(1).map_err(|_| Self::err())?;
        self.0.model.push_lsbs(to_u64(val), n);
        Ok(())
    }
    fn write_msbs<T: Bits>(&mut self, val: T, n: usize) -> Result<(), Self::Error> {
        self.0.gate(2).map_err(|_| Self::err())?;
        self.0.model.push_msbs(to_u64(val), width::<T>(), n);
        Ok(())
    }
    fn write<T: Bits>(&mut self, val: T) -> Result<(), Self::Error> {
        self.0.gate(3).map_err(|_| Self::err())?;
        self.0.model.push_msbs(to_u64(val), width::<T>(), width::<T>());
        Ok(())
    }
}
