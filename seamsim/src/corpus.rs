//! A corpus of small emitted streams covering every subframe kind and stereo
//! mode; shared by the sink-fault (C12), stored-byte-fault (C16) and user-sink
//! (C11 part C) checks. Item `idx` is a pure function of `(seed, idx)`.

use crate::rng::{mix, Rng};
use crate::workload::{CfgSpec, Workload};
use flacenc::bitsink::ByteSink;
use flacenc::component::{BitRepr, ChannelAssignment, MetadataBlockData, Stream, SubFrame};
use flacenc::source::MemSource;
use serde::{Deserialize, Serialize};
use std::collections::BTreeMap;

#[derive(Serialize, Deserialize, Clone, Debug, PartialEq)]
pub struct CorpusSpec {
    pub w: Workload,
    pub extra_meta: bool,
    /// size in bytes of an additional (large) unknown metadata block, 0 = none
    #[serde(default)]
    pub big_meta: usize,
    /// STREAMINFO fields left "unknown" (zero), as a streaming writer may do:
    /// bit 0 = total sample count, bit 1 = min/max frame size, bit 2 = MD5
    #[serde(default)]
    pub unknown: u8,
}

pub struct CorpusItem {
    pub idx: usize,
    pub spec: CorpusSpec,
    pub stream: Stream,
    pub bytes: Vec<u8>,
    pub audio: Vec<i32>,
}

fn base(channels: usize, bits: usize, block: usize, nfull: usize, residue: usize, kinds: &[u8], seed: u64) -> Workload {
    Workload {
        channels,
        bits,
        rate: 44100,
        block,
        nfull,
        residue,
        sig_kinds: kinds.to_vec(),
        sig_seed: seed,
        cfg: CfgSpec::default_spec(),
        workers: None,
        env_workers: None,
        len_hint: true,
        delivery: 0,
        short_reads: false,
        eof_style: 0,
        read_seed: 0,
        faults: vec![],
        hashq_cap: 16,
        probe_reads: vec![],
        len_hint_off: 0,
        cfg_block: None,
        pre_reads: 0,
        synthetic_silence: false,
        pre: None,
        via_mem: false,
        emit_sink: 0,
        observers: false,
    }
}

const DESIGNED: usize = 24;

pub fn spec(seed: u64, idx: usize) -> CorpusSpec {
    let s = mix(seed, 0xC0_4B05 + idx as u64);
    let mut extra_meta = false;
    let mut big_meta = 0usize;
    let mut unknown = 0u8;
    let w = match idx {
        0 => base(1, 16, 32, 1, 0, &[0], s),
        1 => base(1, 8, 32, 2, 0, &[4], s),
        2 => {
            let mut w = base(1, 16, 64, 1, 0, &[5], s);
            w.cfg.use_lpc = false;
            w
        }
        3 => {
            let mut w = base(1, 16, 64, 2, 0, &[11], s);
            w.cfg.use_fixed = false;
            w.cfg.lpc_order = 8;
            w
        }
        4 => base(2, 16, 48, 1, 0, &[5, 9], s),
        5 => base(2, 16, 48, 1, 0, &[5, 8], s),
        6 => base(2, 24, 32, 2, 17, &[5, 3], s),
        7 => base(3, 20, 32, 1, 0, &[5, 0, 4], s),
        8 => base(1, 12, 64, 0, 33, &[2], s),
        9 => base(2, 8, 32, 1, 0, &[1, 1], s),
        10 => base(8, 16, 32, 1, 0, &[0, 1, 2, 3, 4, 5, 10, 11], s),
        11 => base(1, 24, 40, 1, 0, &[7], s),
        12 => {
            extra_meta = true;
            let mut w = base(1, 16, 64, 2, 5, &[11], s);
            w.cfg.lpc_order = 4;
            w
        }
        13 => {
            let mut w = base(2, 16, 64, 1, 0, &[11, 11], s);
            w.cfg.use_leftside = false;
            w.cfg.use_rightside = false;
            w
        }
        14 => {
            let mut w = base(2, 16, 64, 1, 0, &[5, 11], s);
            w.cfg.use_midside = false;
            w.cfg.use_rightside = false;
            w
        }
        15 => {
            let mut w = base(2, 16, 64, 1, 0, &[11, 5], s);
            w.cfg.use_midside = false;
            w.cfg.use_leftside = false;
            w
        }
        16 => {
            let mut w = base(1, 16, 64, 1, 1, &[3], s);
            w.cfg.rice_max = 2;
            w.cfg.use_lpc = false;
            w.cfg.fixed_max_order = 2;
            w
        }
        17 => {
            let mut w = base(2, 20, 48, 3, 0, &[10, 11], s);
            w.cfg.approx_ent_partitions = Some(8);
            w
        }
        18 => {
            let mut w = base(1, 8, 256, 1, 0, &[5], s);
            w.cfg.lpc_order = 24;
            w.cfg.precision = 12;
            w
        }
        19 => base(1, 16, 32, 0, 0, &[0], s), // empty input: STREAMINFO only
        // --- size and header diversity (sizes that cross internal piece/threshold boundaries) ---
        20 => {
            // one ~96 KB verbatim stereo frame (a frame larger than 64 KiB)
            let mut w = base(2, 16, 24000, 1, 0, &[4, 4], s);
            w.cfg.use_fixed = false;
            w.cfg.use_lpc = false;
            w
        }
        21 => {
            // a 4 KiB application metadata block in front of a small stream
            big_meta = 4096;
            base(1, 16, 64, 2, 0, &[11], s)
        }
        22 => {
            // STREAMINFO with unknown total / frame sizes / MD5 (zeros), short last frame
            unknown = 7;
            base(2, 16, 48, 2, 17, &[11, 5], s)
        }
        23 => {
            // maximum block size, Rice-coded (sine + noise) frames of ~20 KB each
            base(1, 16, 32767, 3, 0, &[11], s)
        }
        _ => {
            let mut r = Rng::new(s);
            let channels = if r.chance(0.4) { 2 } else { 1 + r.below(4) };
            let bits = *r.pick(crate::workload::BITS);
            let block = *r.pick(&[32usize, 33, 40, 48, 64]);
            let nfull = 1 + r.below(3);
            let residue = *r.pick(&[0usize, 0, 1, 17, 31]);
            let kinds: Vec<u8> = (0..channels).map(|_| r.below(14) as u8).collect();
            let mut w = base(channels, bits, block, nfull, residue, &kinds, r.next_u64());
            w.cfg = CfgSpec::random(&mut r);
            // keep frames small: no tiny Rice cap on loud wide samples
            if w.cfg.rice_max + 8 < w.bits {
                w.cfg.rice_max = 14;
            }
            w.rate = *r.pick(crate::workload::RATES);
            extra_meta = r.chance(0.15);
            if r.chance(0.12) {
                unknown = 1 + r.below(7) as u8;
            }
            w
        }
    };
    let _ = DESIGNED;
    CorpusSpec {
        w,
        extra_meta,
        big_meta,
        unknown,
    }
}

pub fn stream_bytes(stream: &Stream) -> Vec<u8> {
    let mut sink = ByteSink::new();
    stream.write(&mut sink).expect("HARNESS: writing a corpus stream to ByteSink failed");
    sink.into_inner()
}

pub fn build_spec(idx: usize, spec: CorpusSpec) -> CorpusItem {
    let w = &spec.w;
    let audio = w.samples();
    let src = MemSource::from_samples(&audio, w.channels, w.bits, w.rate);
    let cfg = w.cfg.build(false, None, w.block);
    let mut stream = flacenc::encode_with_fixed_block_size(&cfg, src, w.block)
        .unwrap_or_else(|e| panic!("HARNESS: corpus item {idx} failed to encode: {e:?}"));
    if spec.extra_meta {
        stream.add_metadata_block(MetadataBlockData::new_unknown(4, &meta_blob()).expect("HARNESS: metadata"));
    }
    if spec.big_meta > 0 {
        stream.add_metadata_block(MetadataBlockData::new_unknown(2, &big_blob(spec.big_meta)).expect("HARNESS: metadata"));
    }
    apply_unknown(&mut stream, spec.unknown);
    let bytes = stream_bytes(&stream);
    CorpusItem {
        idx,
        spec,
        stream,
        bytes,
        audio,
    }
}

pub fn big_blob(n: usize) -> Vec<u8> {
    (0..n).map(|i| (i as u8).wrapping_mul(101) ^ 0x3C).collect()
}

fn apply_unknown(stream: &mut Stream, unknown: u8) {
    if unknown & 1 != 0 {
        stream.stream_info_mut().set_total_samples(0);
    }
    if unknown & 2 != 0 {
        stream.stream_info_mut().set_frame_sizes(0, 0).expect("HARNESS: frame sizes");
    }
    if unknown & 4 != 0 {
        stream.stream_info_mut().set_md5_digest(&[0u8; 16]);
    }
}

pub fn meta_blob() -> Vec<u8> {
    (0..23u8).map(|i| i.wrapping_mul(37) ^ 0x5A).collect()
}

/// A copy of the item's stream (`Stream` is not `Clone`), optionally with every frame's bitstream
/// precomputed (what multi-thread mode returns). The copy serialises to the same bytes.
pub fn rebuild(item: &CorpusItem, precompute: bool) -> Stream {
    let st = &item.stream;
    let mut out = Stream::with_stream_info(st.stream_info().clone());
    if item.spec.extra_meta {
        out.add_metadata_block(MetadataBlockData::new_unknown(4, &meta_blob()).expect("HARNESS: metadata"));
    }
    if item.spec.big_meta > 0 {
        out.add_metadata_block(MetadataBlockData::new_unknown(2, &big_blob(item.spec.big_meta)).expect("HARNESS: metadata"));
    }
    for n in 0..st.frame_count() {
        let mut f = st.frame(n).unwrap().clone();
        if precompute {
            f.precompute_bitstream();
        }
        out.add_frame(f);
    }
    out.stream_info_mut().set_total_samples(st.stream_info().total_samples());
    apply_unknown(&mut out, item.spec.unknown);
    // A copy that serialises differently (a writer that is not a function of the component: C08/C15's
    // business) cannot serve as the clean reference of a fault sweep; it is skipped and counted.
    if stream_bytes(&out) != item.bytes {
        INCONSISTENT.fetch_add(1, std::sync::atomic::Ordering::Relaxed);
    }
    out
}

/// Number of corpus copies whose serialisation differed from the original (coverage probe).
pub static INCONSISTENT: std::sync::atomic::AtomicU64 = std::sync::atomic::AtomicU64::new(0);

pub fn build(seed: u64, idx: usize) -> CorpusItem {
    build_spec(idx, spec(seed, idx))
}

/// Number of corpus items the library could not even encode / serialise (panic or error while the corpus
/// was being built). Such an item cannot serve as a clean reference; it is skipped and counted.
pub static UNBUILDABLE: std::sync::atomic::AtomicU64 = std::sync::atomic::AtomicU64::new(0);

/// `build`, but a library that panics or fails while the item is made yields `None` instead of ending the run.
pub fn try_build(seed: u64, idx: usize) -> Option<CorpusItem> {
    match crate::pan::catch(|| build(seed, idx)) {
        Ok(item) => Some(item),
        Err(_) => {
            UNBUILDABLE.fetch_add(1, std::sync::atomic::Ordering::Relaxed);
            None
        }
    }
}

/// Which subframe kinds / channel assignments an item contains (coverage probes).
pub fn kinds(item: &CorpusItem, hist: &mut BTreeMap<String, u64>) {
    for n in 0..item.stream.frame_count() {
        let f = item.stream.frame(n).unwrap();
        let ca = match f.header().channel_assignment() {
            ChannelAssignment::Independent(_) => "assign_independent",
            ChannelAssignment::LeftSide => "assign_leftside",
            ChannelAssignment::RightSide => "assign_rightside",
            ChannelAssignment::MidSide => "assign_midside",
        };
        *hist.entry(ca.into()).or_default() += 1;
        for c in 0..f.subframe_count() {
            let k = match f.subframe(c).unwrap() {
                SubFrame::Constant(_) => "subframe_constant",
                SubFrame::Verbatim(_) => "subframe_verbatim",
                SubFrame::FixedLpc(_) => "subframe_fixed",
                SubFrame::Lpc(_) => "subframe_lpc",
            };
            *hist.entry(k.into()).or_default() += 1;
        }
    }
    if item.spec.extra_meta {
        *hist.entry("extra_metadata_block".into()).or_default() += 1;
    }
    if item.stream.frame_count() == 0 {
        *hist.entry("no_frames".into()).or_default() += 1;
    }
}

/// Byte offset of the first frame: 4 (marker) + the metadata blocks, read from the clean bytes.
pub fn frame_region_start(bytes: &[u8]) -> usize {
    let mut p = 4usize;
    loop {
        if p + 4 > bytes.len() {
            return bytes.len();
        }
        let last = bytes[p] & 0x80 != 0;
        let len = (usize::from(bytes[p + 1]) << 16) | (usize::from(bytes[p + 2]) << 8) | usize::from(bytes[p + 3]);
        p += 4 + len;
        if last {
            return p.min(bytes.len());
        }
    }
}
