#!/usr/bin/env python3
"""Writes /verif/MANIFEST.json (kept as a script so that the claimed / not-applicable lists stay consistent)."""
import json
import os

HERE = os.path.dirname(os.path.abspath(__file__))

NA = {
    "C01": "pure function of (input, configuration): no schedule, fault or history dimension; its only schedule-dependent slice (par and frame-level entry points) is C05's byte equality, which is simulated",
    "C02": "well-formedness is a pure function of input and configuration; no interleaving, fault or history for a simulator to own (par-mode frame numbering is implied by C05)",
    "C04": "pure function of input length and emitted frames (order-independent min/max); nothing to schedule or fault",
    "C07": "pure predicate over 17 configuration fields plus a pure encode; boundary-grid/input generation, not simulation",
    "C08": "pure equality of a counter and a write, per component; no schedule, fault or history",
    "C09": "pure function of block and configuration; needs input search, not a simulator",
    "C13": "pure optimality claim over a search space; needs a brute-force oracle over inputs, not a simulator",
    "C15": "pure round trip writer->parser->writer; no fault or schedule (corrupted input is C16, which is claimed)",
    "C18": "argument-grid totality of pure constructors; no nondeterminism or fault seam",
    "C19": "pure serialisation round trip of configuration values",
    "C20": "build-matrix property; nothing at run time for a simulator to schedule or break",
}

PENDING = "check under construction in this session (deterministic simulation planned, see DESIGN.md); not yet registered"

CHECKS = {
    "C05": dict(
        engine="parsim",
        category="exploration",
        text="Seeded search over (workload, schedule) pairs: the real par.rs feeder/worker/hashing-thread code runs under a scheduler "
             "we own (shuttle runtime, our Scheduler), and every multi-thread result is compared byte for byte with the single-thread "
             "result and with a stream assembled frame by frame through the public frame-level entry point. A clean batch is evidence "
             "from a sample of a very large interleaving space, not a proof; every failure replays from a file.",
        design_ref="DESIGN.md sections 3, 5 (C05)",
        note="Trusted: shuttle's runtime; the bounded-MPMC channel model in src/verif.rs standing in for crossbeam-channel; "
             "SimSource as the (well-behaved) sample source. Workloads are small (<= 12 blocks quick, <= 40 thorough, block <= 576/4096, "
             "<= 4/8 configured workers, or the machine's parallelism). FLACENC_WORKERS is set per child process.",
        technique="deterministic simulation: seeded schedule search over the real multi-thread encoder, differential oracle (par vs single vs frame-wise bytes), replayable minimised schedules",
    ),
    "C06": dict(
        engine="parsim",
        category="exploration",
        text="Seeded search over source fault plans (read error at read k, error after fill, out-of-range sample at block k, one or two "
             "faults of the same or of different kinds) crossed with schedules of the real multi-thread encoder. Oracles: the call returns (no deadlock, within a step budget "
             "~45x the largest fault-free run), no task panics, the error is of the same kind as the single-thread error for the same scripted source, and "
             "no thread started by the call is alive when it returns or blocked forever afterwards; a separate fault-free batch requires Ok and "
             "byte equality (every frame once, in order).",
        design_ref="DESIGN.md sections 3.3-3.6, 5 (C06)",
        note="Trusted: shuttle runtime, channel model, live-thread counter in the seam (threads started through the library's thread::spawn). "
             "The error kind (EncodeError variant) must equal the single-thread kind for every plan, including plans that mix fault kinds; a different text within the same kind is counted, not judged.",
        technique="deterministic simulation with fault injection on the Source seam crossed with seeded schedules; termination, error-kind and thread-leak oracles; replayable minimised fault+schedule traces",
    ),
    "C03": dict(
        engine="parsim",
        category="exploration",
        text="Seeded search over delivery scripts (ints / packed bytes / mixed, short reads, EOF styles, with and without length hint) and "
             "schedules of the asynchronous hashing thread. The harness reads STREAMINFO out of the emitted bytes itself and compares rate, "
             "channels, bits, total samples and MD5 with values it computes independently from the samples the simulated source handed out, "
             "for single-thread and multi-thread runs. Sources may have a read history (blocks read by their owner before the encoder "
             "gets them), may probe with an oversize chunk and fall back, and in the thorough tier one stream has 2^32+5 samples (generated on the fly).",
        design_ref="DESIGN.md sections 3.3, 3.4, 5 (C03)",
        note="Trusted: md-5 crate as hash primitive (also used by the library; the serialisation and bookkeeping around it are independent), shuttle runtime, channel model.",
        technique="deterministic simulation: seeded schedules of the hashing thread x scripted source delivery, independent STREAMINFO/MD5 oracle",
    ),
    "C12": dict(
        engine="seamsim",
        category="fault_enumeration",
        text="Fault injection on the BitSink seam, enumerated completely for a corpus of small streams: for every component (stream, stream "
             "with precomputed frames, STREAMINFO, metadata, frames, frame headers, subframes, residuals) and EVERY operation index k of its "
             "write, the write is repeated on a user-defined sink that fails at operation k, in four flavours (required-methods-only or "
             "all-methods-overridden sink; failing from k on, or only at k). Oracles: no panic; the call returns the sink's error; the bits "
             "accepted before the failure are a prefix of the clean bitstream; the same failing write repeated on the same thread again returns the error and again accepts only a prefix (the property holds for every failing write, not only the first on a thread). "
             "The thorough tier repeats it on a larger corpus and on a build with debug assertions and overflow checks.",
        design_ref="DESIGN.md section 4.3",
        note="Complete over k for the corpus; the corpus itself (48 / 400 small streams, every subframe kind and stereo mode, 8..24 bits) is a sample of all streams. "
             "The sink either accepts or rejects a whole operation.",
        technique="fault injection on the BitSink seam, enumerated at every operation index of the write (deterministic, replayable per (component, flavour, k))",
    ),
    "C16": dict(
        engine="seamsim",
        category="fault_enumeration",
        text="Storage faults between Stream::write and parser::stream, enumerated for a corpus of small emitted streams: EVERY single-bit flip of the "
             "whole file, EVERY truncation length, bursts of up to 8 bits (quick: every multi-bit mask at every byte position on a third of the corpus; "
             "thorough: every start bit x every mask with first and last bit set, all streams, plus a build with debug assertions and overflow checks), and seeded "
             "random byte strings and splices for the never-panics half. Oracles: parser::stream never panics; a fault at or after the first frame byte that is still "
             "accepted must decode to the original audio (decode must not panic either).",
        design_ref="DESIGN.md section 4.5",
        note="Complete over fault positions for the corpus (30 / 120 streams of 40-700 bytes); random bytes and splices are a shallow sample (fuzzing territory). "
             "A corpus stream the parser rejects unmutated is skipped and counted (baseline_rejected; the empty stream is one).",
        technique="fault injection on stored bytes (bit flips, bursts, truncation) enumerated at every position, differential decode oracle, replayable per (stream, fault)",
    ),
    "C11": dict(
        engine="seamsim",
        category="exploration",
        text="Operation histories on both in-memory sinks against a reference model (an ideal MSB-first Vec<bool>): a complete grid of one operation "
             "at every start offset 0..63 (every operand width, every bit count 0..=width, value patterns, write_twoc widths 1..64, zero runs 0..200, alignment, "
             "aligned byte slices), seeded random sequences of 1..60 operations compared after every operation (length, bits, zero tail, storage length, "
             "write_to_byte_slice, to_bitstring), and every component of a corpus of encoded streams written to a required-methods-only user sink, an "
             "all-methods user sink and MemSink<u64>, compared bit for bit with ByteSink. Thorough adds 2M sequences and a build with debug assertions and overflow checks.",
        design_ref="DESIGN.md section 4.2",
        note="Conformance of a sequential object to a reference model over operation histories; there is no schedule or fault dimension in this property and none is invented. "
             "Operand domain as the property states it: n in 0..=width, two's-complement width 1..64 with a value that fits.",
        technique="seeded operation-history simulation against an executable reference model (ideal bit string), plus a complete single-operation grid; shrinking by dropping operations",
    ),
    "C10": dict(
        engine="seamsim",
        category="exploration",
        text="Seeded search over call histories: a sequencer hands 2..8 (thorough 2..12) calls, one at a time, to 1..3 long-lived caller "
             "threads (stream-level encodes through a scripted source incl. failing ones, frame-level encodes, writes to ByteSink / MemSink<u64> "
             "with and without precomputed frames, parse + re-serialise + decode, verify). 80% of the calls are neighbours of an earlier call "
             "(one argument changed: block smaller/larger, channels, width, Rice cap 14<->0, fixed order 4<->0, Tukey alpha +-1..300 ulp, ...) "
             "or exact repeats. Calls may use objects with a history of their own (a FrameBuf kept by the caller thread across frame-level encodes of "
             "changing width / fill / configuration; a Stream that was already written, counted, verified, copied, written to a failing sink, or "
             "written before its STREAMINFO was finalised); one history in eight is centred on such an object. "
             "Every call's result is compared with the same call made alone, with new objects, on a freshly spawned thread. The multi-thread "
             "slice (an earlier call on the same simulated main thread, then a multi-thread encode under seeded schedules) runs in parsim.",
        design_ref="DESIGN.md section 4.1",
        note="No concurrency is involved in the seamsim part (exactly one caller runs at a time; the operation list is the schedule); what is "
             "simulated is the history and the identity of the calling thread, against the reference model 'a thread with no history'. "
             "Inputs a call merely consumes (stream to write, bytes to parse) are produced on a throw-away helper thread.",
        technique="deterministic simulation of call histories on long-lived caller threads (seeded sequencer), differential oracle against a fresh thread, history minimisation",
    ),
    "C14": dict(
        engine="seamsim",
        category="exploration",
        text="The sample source / caller of the Fill operations is a simulated peer that delivers the same audio under different scripts: "
             "per read as i32s or as packed LE bytes (1..4 bytes per sample), full blocks, shorter blocks, a full block followed by a shorter "
             "one into the same buffer, through FrameBuf, &mut FrameBuf, Context and the (FrameBuf, Context) tuple. Stream level: all-ints vs "
             "all-bytes vs mixed scripts give identical bytes (single-thread in seamsim; multi-thread under seeded schedules in parsim, against "
             "the single-thread all-integer reference). Buffer level: after every fill the frame encoded from the buffer equals the frame of a "
             "fresh buffer filled once as integers. Context level: MD5, sample count and frame counter agree after every step with all-ints "
             "and all-bytes replicas, for widths 1..32 bits.",
        design_ref="DESIGN.md section 4.4",
        note="Relative oracle only (the two delivery paths against each other and against a fresh buffer), as the property is worded; "
             "values are biased to the extremes of the width. After the C17 repair a byte fill must use the bytes-per-sample of the declared "
             "width wherever a width is declared (Context); wider byte fills are exercised on FrameBuf alone.",
        technique="deterministic simulation of the Source/Fill seam (scripted delivery of identical audio), differential oracle across delivery scripts and against a fresh buffer",
    ),
    "C17": dict(
        engine="seamsim",
        category="exploration",
        text="Simulated part: a Byzantine peer on the Source/Fill seam misbehaves at read k of an otherwise ordinary stream (single-thread "
             "in seamsim; multi-thread under seeded schedules in parsim) or at one fill of a fresh or already used FrameBuf / Context / tuple: "
             "a sample outside the declared width (as ints or bytes), more samples than the buffer holds, a bytes-per-sample that disagrees "
             "with the declared width (incl. 0, 5, 8), a frame number >= 2^31, an entry-point block size outside 32..=32767 in multi-thread "
             "mode. Oracle: the call returns an error - no panic, no hang, no Ok, and in multi-thread mode no leaked thread. Auxiliary part "
             "(plain boundary-value enumeration, not simulation): the format and block-size arguments of StreamInfo::new, Stream::new, "
             "FrameBuf::with_size and encode_with_fixed_block_size on the property's grid {0, min-1, max+1, 2^8+k, 2^16+k, 2^32+k, usize::MAX}.",
        design_ref="DESIGN.md sections 4.4, 5 (C17)",
        note="The argument-grid clauses have no schedule or fault in them; they are enumerated for completeness and stated as such. "
             "Sample widths 9/13/17/21/25 (accepted by the library's shared side-channel width check) are not judged.",
        technique="deterministic simulation of a Byzantine Source/Fill peer (fault at read k, single- and multi-thread under seeded schedules) plus auxiliary boundary-value enumeration of entry-point arguments",
    ),
}


def main():
    checks = []
    for pid in sorted(CHECKS):
        c = CHECKS[pid]
        checks.append({
            "property_id": pid,
            "quick_cmd": "./run.py check %s --tier quick" % pid,
            "thorough_cmd": "./run.py check %s --tier thorough" % pid,
            "evidence_file": "/verif/evidence/%s.json" % pid,
            "replay_cmd_template": "./run.py replay {path}",
            "engine": c["engine"],
            "level_claimed": {"category": c["category"], "text": c["text"], "design_ref": c["design_ref"]},
            "level_note": c["note"],
            "technique": c["technique"],
        })
    na = [{"property_id": k, "reason": v} for k, v in sorted(NA.items())]
    all_ids = ["C%02d" % i for i in range(1, 21)]
    for pid in all_ids:
        if pid not in CHECKS and pid not in NA:
            na.append({"property_id": pid, "reason": PENDING})
    m = {
        "version": 1,
        "setup_cmd": "./run.py setup",
        "hooks": {
            "guard": "--cfg flacenc_verif",
            "enable": "RUSTFLAGS=\"--cfg flacenc_verif\" via /verif/parsim/.cargo/config.toml; /repo/src is built through the shadow manifest "
                      "/verif/shadow/flacenc (regenerated from /repo/Cargo.toml on every run, adds the shuttle dependency). seamsim builds /repo with the guard off.",
            "baseline_off_cmd": "cd /repo && cargo test --workspace --no-fail-fast --offline",
            "source_commits": ["1137d88", "d9d77ee", "4d03e51", "439d3d6", "a807783"],
            "add_only": True,
        },
        "engines": [
            {"name": "parsim", "path": "/verif/parsim", "serves_properties": ["C03", "C05", "C06", "C10", "C14", "C17"],
             "kind_free_text": "deterministic simulator of the multi-thread encoder: shuttle runtime + own seeded Scheduler (uniform/sticky/pct/starve/stall/ahead/round-robin), "
                               "scripted SimSource with fault plans, recorded and replayable schedules, out-of-process minimisation"},
            {"name": "seamsim", "path": "/verif/seamsim", "serves_properties": ["C10", "C11", "C12", "C14", "C16", "C17"],
             "kind_free_text": "guard-off build: simulated peers on the Source / Fill / BitSink seams and on stored bytes (fault at every operation / every bit), "
                               "operation histories against reference models, call histories on long-lived threads"},
        ],
        "checks": checks,
        "not_applicable": na,
        "notes": "see DESIGN.md; driver ./run.py (setup | check <id> --tier T | replay <file> | selfcheck determinism|mutants); known findings in known_findings.json",
    }
    json.dump(m, open(os.path.join(HERE, "MANIFEST.json"), "w"), indent=1)


if __name__ == "__main__":
    main()
